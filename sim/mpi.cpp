#include "mpi.hpp"
#include "mpi_include/mpi.h"
#include <cstring>
#include <cstdio>
#include <cstdlib>
#include <complex>
#include <deque>
#include <memory>
#include <algorithm>
#include <stdexcept>

using namespace sim;

namespace {

struct Msg {
    int comm, src, dst, tag;            // src/dst are ranks inside comm
    std::vector<char> payload;          // content at the time of the (possibly late) read
    const void *live = 0; size_t bytes = 0;
    bool read_done = true;              // false: the send buffer has not been read yet (late_send_read)
    int countdown = 0;                  // MPI calls of the sender until the read
    int owner = -1;                     // world rank of the sender
    struct RecvReq *peer = 0;
    bool delivered = false;
};

struct RecvReq {
    int comm, src, dst, tag; void *buf; size_t bytes; int owner;
    std::shared_ptr<Msg> msg; bool delivered = false; bool hold_until_wait = false;
};

struct Coll {
    int arrived = 0; bool done = false; int kind = 0;
    std::vector<const void*> sbuf; std::vector<void*> rbuf; std::vector<int> a, b;   // per comm-rank arguments
    int count = 0, dtype = 0, op = 0, root = 0, scount = 0, rcount = 0, stype = 0, rtype = 0;
    std::vector<MPI_Comm> newcomm;
};

struct Comm {
    std::vector<int> members;           // world ranks, index = rank in this comm
    std::vector<uint64_t> seq;          // per member: number of collectives entered
    std::map<uint64_t, std::shared_ptr<Coll> > colls;
    std::deque<std::shared_ptr<Msg> > unmatched_sends;
    std::deque<RecvReq*> unmatched_recvs;
    bool freed = false;
};

struct Request {
    int kind = 0;                       // 1 send, 2 recv, 3 collective
    std::shared_ptr<Msg> msg; RecvReq *rq = 0; std::shared_ptr<Coll> coll;
    bool active = false;
};

struct World {
    simmpi::Config cfg; simmpi::Stats st; rng r;
    std::vector<Comm> comms;
    std::vector<Request> reqs;
    std::vector<Fiber*> rank_fiber;
    std::vector<bool> blocked;          // rank is blocked inside an MPI call
    std::vector<std::vector<std::shared_ptr<Msg> > > pending_reads;   // per world rank
    int alive = 0;
    bool active = false;
} W;

// derived datatypes are created once per process by amgcl (function-local statics) and outlive a simulated world
struct Derived { std::vector<size_t> derived; std::vector<int> derived_base, derived_n; } DT;

int my_world_rank() { Ctx *c = current_ctx(); return c ? c->rank : -1; }

size_t base_size(int t) {
    switch (t) {
        case MPI_CHAR: case MPI_BYTE: return 1; case MPI_INT: case MPI_UNSIGNED: case MPI_FLOAT: return 4;
        case MPI_LONG: case MPI_UNSIGNED_LONG: case MPI_LONG_LONG_INT: case MPI_UNSIGNED_LONG_LONG: case MPI_DOUBLE: case MPI_CXX_FLOAT_COMPLEX: return 8;
        case MPI_LONG_DOUBLE: case MPI_CXX_DOUBLE_COMPLEX: return 16;
    }
    return 0;
}
size_t type_size(int t) { if (t >= AMGSIM_FIRST_DERIVED_TYPE) return DT.derived.at(t - AMGSIM_FIRST_DERIVED_TYPE); return base_size(t); }
void base_of(int t, int &base, int &n) { if (t >= AMGSIM_FIRST_DERIVED_TYPE) { int b = DT.derived_base[t - AMGSIM_FIRST_DERIVED_TYPE], k = DT.derived_n[t - AMGSIM_FIRST_DERIVED_TYPE]; int bb, nn; base_of(b, bb, nn); base = bb; n = nn * k; } else { base = t; n = 1; } }

int comm_rank_of(Comm &c, int wr) { for (size_t i = 0; i < c.members.size(); ++i) if (c.members[i] == wr) return (int)i; return -1; }

void wake_all() { for (size_t i = 0; i < W.rank_fiber.size(); ++i) if (W.rank_fiber[i] && W.blocked[i]) wake(W.rank_fiber[i]); }

void deliver(RecvReq *rq) {
    Msg &m = *rq->msg;
    size_t nb = std::min(rq->bytes, m.payload.size());
    if (nb) std::memcpy(rq->buf, m.payload.data(), nb);
    rq->delivered = true; m.delivered = true;
    ++W.st.messages; W.st.bytes += nb;
}

void try_deliver(RecvReq *rq) {
    if (rq->delivered || !rq->msg || !rq->msg->read_done || rq->hold_until_wait) return;
    deliver(rq); wake_all();
}

void do_read(const std::shared_ptr<Msg> &m) {
    if (m->read_done) return;
    ++W.st.late_reads;
    if (m->bytes && std::memcmp(m->payload.data(), m->live, m->bytes) != 0) { ++W.st.late_read_changed_payload; SIM_PROBE("late_read_changed_payload"); }
    if (m->bytes) std::memcpy(m->payload.data(), m->live, m->bytes);
    m->read_done = true;
    if (m->peer) try_deliver(m->peer);
}

// called at the entry of every MPI call of a rank: seeded moments at which pending send buffers are read
void progress(int wr, bool force) {
    std::vector<std::shared_ptr<Msg> > &p = W.pending_reads[wr];
    for (size_t i = 0; i < p.size(); ) {
        if (force || --p[i]->countdown <= 0) { do_read(p[i]); p[i] = p.back(); p.pop_back(); } else ++i;
    }
}

void enter(const char *) {
    ++W.st.mpi_calls;
    int wr = my_world_rank();
    if (wr >= 0) progress(wr, false);
    yield(P_MPI_CALL);
}

template <class Cond> void wait_until(Cond cond, const char *why) {
    int wr = my_world_rank();
    while (!cond()) {
        progress(wr, true);             // MPI guarantees progress of this rank's sends while it is inside the library
        if (cond()) break;
        W.blocked[wr] = true;
        block(P_MPI_BLOCK, why);
        W.blocked[wr] = false;
    }
}

void match_send(Comm &c, const std::shared_ptr<Msg> &m) {
    for (std::deque<RecvReq*>::iterator it = c.unmatched_recvs.begin(); it != c.unmatched_recvs.end(); ++it) {
        RecvReq *rq = *it;
        if (rq->src == m->src && rq->dst == m->dst && rq->tag == m->tag) { rq->msg = m; m->peer = rq; c.unmatched_recvs.erase(it); try_deliver(rq); wake_all(); return; }
    }
    c.unmatched_sends.push_back(m);
}
void match_recv(Comm &c, RecvReq *rq) {
    for (std::deque<std::shared_ptr<Msg> >::iterator it = c.unmatched_sends.begin(); it != c.unmatched_sends.end(); ++it) {
        if ((*it)->src == rq->src && (*it)->dst == rq->dst && (*it)->tag == rq->tag) { rq->msg = *it; (*it)->peer = rq; c.unmatched_sends.erase(it); try_deliver(rq); wake_all(); return; }
    }
    c.unmatched_recvs.push_back(rq);
}

int new_request() { for (size_t i = 0; i < W.reqs.size(); ++i) if (!W.reqs[i].active) { W.reqs[i] = Request(); W.reqs[i].active = true; return (int)i; } W.reqs.push_back(Request()); W.reqs.back().active = true; return (int)W.reqs.size() - 1; }

template <class T> void reduce_typed(T *acc, const T *v, int n, int op) {
    for (int i = 0; i < n; ++i) switch (op) { case MPI_SUM: acc[i] = acc[i] + v[i]; break; case MPI_PROD: acc[i] = acc[i] * v[i]; break; default: break; }
}
template <class T> void reduce_ordered(T *acc, const T *v, int n, int op) {
    for (int i = 0; i < n; ++i) switch (op) { case MPI_SUM: acc[i] = acc[i] + v[i]; break; case MPI_PROD: acc[i] = acc[i] * v[i]; break; case MPI_MAX: if (v[i] > acc[i]) acc[i] = v[i]; break; case MPI_MIN: if (v[i] < acc[i]) acc[i] = v[i]; break; }
}
void reduce_any(void *acc, const void *v, int count, int dtype, int op) {
    int base, k; base_of(dtype, base, k); int n = count * k;
    switch (base) {
        case MPI_CHAR: reduce_ordered((char*)acc, (const char*)v, n, op); break;
        case MPI_INT: reduce_ordered((int*)acc, (const int*)v, n, op); break;
        case MPI_UNSIGNED: reduce_ordered((unsigned*)acc, (const unsigned*)v, n, op); break;
        case MPI_LONG: case MPI_LONG_LONG_INT: reduce_ordered((long long*)acc, (const long long*)v, n, op); break;
        case MPI_UNSIGNED_LONG: case MPI_UNSIGNED_LONG_LONG: reduce_ordered((unsigned long long*)acc, (const unsigned long long*)v, n, op); break;
        case MPI_FLOAT: reduce_ordered((float*)acc, (const float*)v, n, op); break;
        case MPI_DOUBLE: reduce_ordered((double*)acc, (const double*)v, n, op); break;
        case MPI_LONG_DOUBLE: reduce_ordered((long double*)acc, (const long double*)v, n, op); break;
        case MPI_CXX_FLOAT_COMPLEX: reduce_typed((std::complex<float>*)acc, (const std::complex<float>*)v, n, op); break;
        case MPI_CXX_DOUBLE_COMPLEX: reduce_typed((std::complex<double>*)acc, (const std::complex<double>*)v, n, op); break;
        default: fprintf(stderr, "amgsim mpi: reduction on unsupported datatype %d\n", dtype); abort();
    }
}

enum { K_BARRIER = 1, K_ALLREDUCE, K_ALLGATHER, K_GATHER, K_ALLTOALL, K_EXSCAN, K_SPLIT };

void complete(Comm &c, Coll &k) {
    int n = (int)c.members.size();
    switch (k.kind) {
        case K_BARRIER: break;
        case K_ALLREDUCE: {
            size_t bytes = type_size(k.dtype) * k.count; std::vector<char> acc(bytes);
            if (bytes) std::memcpy(acc.data(), k.sbuf[0], bytes);
            for (int r = 1; r < n; ++r) reduce_any(acc.data(), k.sbuf[r], k.count, k.dtype, k.op);       // rank order: every rank gets the same bits
            for (int r = 0; r < n; ++r) if (bytes) std::memcpy(k.rbuf[r], acc.data(), bytes);
            break; }
        case K_EXSCAN: {
            size_t bytes = type_size(k.dtype) * k.count; std::vector<char> acc(bytes);
            if (bytes) std::memcpy(acc.data(), k.sbuf[0], bytes);
            for (int r = 1; r < n; ++r) { std::vector<char> mine(bytes); if (bytes) { std::memcpy(mine.data(), k.sbuf[r], bytes); std::memcpy(k.rbuf[r], acc.data(), bytes); } reduce_any(acc.data(), mine.data(), k.count, k.dtype, k.op); }
            break; }
        case K_ALLGATHER: {
            size_t sb = type_size(k.stype) * k.scount, rb = type_size(k.rtype) * k.rcount;
            std::vector<std::vector<char> > tmp(n); for (int s = 0; s < n; ++s) { tmp[s].resize(sb); if (sb) std::memcpy(tmp[s].data(), k.sbuf[s], sb); }
            for (int r = 0; r < n; ++r) for (int s = 0; s < n; ++s) if (sb) std::memcpy((char*)k.rbuf[r] + s * rb, tmp[s].data(), std::min(sb, rb));
            break; }
        case K_GATHER: {
            size_t sb = type_size(k.stype) * k.scount; size_t rb = type_size(k.rtype) * k.b[k.root];
            std::vector<std::vector<char> > tmp(n); for (int s = 0; s < n; ++s) { tmp[s].resize(sb); if (sb) std::memcpy(tmp[s].data(), k.sbuf[s], sb); }
            // the root's receive count decides how much is written per source (a wrong count overruns the buffer in a real MPI too)
            for (int s = 0; s < n; ++s) if (sb) std::memcpy((char*)k.rbuf[k.root] + s * rb, tmp[s].data(), std::min(sb, rb));
            break; }
        case K_ALLTOALL: {
            size_t sb = type_size(k.stype) * k.scount, rb = type_size(k.rtype) * k.rcount;
            std::vector<std::vector<char> > tmp(n); for (int s = 0; s < n; ++s) { tmp[s].resize(sb * n); if (sb) std::memcpy(tmp[s].data(), k.sbuf[s], sb * n); }
            for (int r = 0; r < n; ++r) for (int s = 0; s < n; ++s) if (sb) std::memcpy((char*)k.rbuf[r] + s * rb, tmp[s].data() + r * sb, std::min(sb, rb));
            break; }
        case K_SPLIT: {
            // a = color, b = key; members of one color ordered by (key, old rank)
            k.newcomm.assign(n, MPI_COMM_NULL);
            std::vector<int> colors; for (int r = 0; r < n; ++r) if (k.a[r] != MPI_UNDEFINED && std::find(colors.begin(), colors.end(), k.a[r]) == colors.end()) colors.push_back(k.a[r]);
            std::sort(colors.begin(), colors.end());
            std::vector<int> members_copy = c.members;       // (W.comms may reallocate below)
            for (size_t ci = 0; ci < colors.size(); ++ci) {
                std::vector<std::pair<std::pair<int,int>, int> > grp;
                for (int r = 0; r < n; ++r) if (k.a[r] == colors[ci]) grp.push_back(std::make_pair(std::make_pair(k.b[r], r), r));
                std::sort(grp.begin(), grp.end());
                Comm nc; for (size_t g = 0; g < grp.size(); ++g) nc.members.push_back(members_copy[grp[g].second]);
                nc.seq.assign(nc.members.size(), 0);
                W.comms.push_back(nc); int id = (int)W.comms.size() - 1;
                for (size_t g = 0; g < grp.size(); ++g) k.newcomm[grp[g].second] = id;
            }
            ++W.st.comm_splits;
            break; }
    }
    k.done = true; ++W.st.collectives;
    wake_all();
}

// enter a collective on comm; returns the instance; the last arrival completes it
std::shared_ptr<Coll> arrive(int comm, int kind, const void *sbuf, void *rbuf, int a, int b, std::function<void(Coll&)> init) {
    int wr = my_world_rank();
    int me = comm_rank_of(W.comms[comm], wr);
    if (me < 0) { char buf[160]; snprintf(buf, sizeof buf, "rank %d calls a collective on communicator %d it does not belong to", wr, comm); sim::fail_world(buf); }
    uint64_t seq = W.comms[comm].seq[me]++;
    std::shared_ptr<Coll> &slot = W.comms[comm].colls[seq];
    if (!slot) { slot = std::make_shared<Coll>(); int n = (int)W.comms[comm].members.size(); slot->kind = kind; slot->sbuf.assign(n, 0); slot->rbuf.assign(n, 0); slot->a.assign(n, 0); slot->b.assign(n, 0); }
    std::shared_ptr<Coll> k = slot;
    if (k->kind != kind) {
        static const char *names[] = { "?", "Barrier", "Allreduce", "Allgather", "Gather", "Alltoall", "Exscan", "Comm_split" };
        char buf[256]; snprintf(buf, sizeof buf, "collective mismatch on communicator %d (collective call #%llu): rank %d calls MPI_%s while another rank is in MPI_%s", comm, (unsigned long long)seq, wr, names[kind & 7], names[k->kind & 7]);
        sim::fail_world(buf);
    }
    k->sbuf[me] = sbuf; k->rbuf[me] = rbuf; k->a[me] = a; k->b[me] = b; init(*k);
    if (++k->arrived == (int)W.comms[comm].members.size()) { complete(W.comms[comm], *k); W.comms[comm].colls.erase(seq); }
    return k;
}

void rank_entry(void *p);
struct RankStart { const std::function<void(int)> *fn; int rank; std::string *exc; };

} // namespace

namespace simmpi {

int world_rank() { return my_world_rank(); }

Outcome run(const Config &cfg, const sim::SchedConfig &sched, const std::function<void(int)> &rank_main) {
    Outcome out; out.rank_exception.assign(cfg.ranks, "");
    W = World(); W.cfg = cfg; W.r = rng(cfg.seed, "mpi");
    std::vector<RankStart> starts(cfg.ranks);
    sim::set_num_threads(cfg.nt);
    out.sched = sim::run_world(sched, [&]() {
        sim::set_num_threads(cfg.nt);
        Comm world; for (int r = 0; r < cfg.ranks; ++r) world.members.push_back(r); world.seq.assign(cfg.ranks, 0);
        W.comms.push_back(world);
        W.rank_fiber.assign(cfg.ranks, 0); W.blocked.assign(cfg.ranks, false); W.pending_reads.assign(cfg.ranks, std::vector<std::shared_ptr<Msg> >());
        W.alive = cfg.ranks; W.active = true;
        Fiber *root = current();
        for (int r = 0; r < cfg.ranks; ++r) {
            starts[r].fn = &rank_main; starts[r].rank = r; starts[r].exc = &out.rank_exception[r];
            Ctx *c = new_ctx(r); c->nt_max = cfg.nt; c->user = root;
            W.rank_fiber[r] = spawn(rank_entry, &starts[r], c, 0, 0, r);
        }
        while (W.alive > 0) block(P_MPI_BLOCK, "mpirun waits for the ranks");
        W.active = false;
    });
    out.stats = W.st;
    W.active = false;
    return out;
}

} // namespace simmpi

namespace {
void rank_entry(void *p) {
    RankStart *s = (RankStart*)p;
    try { (*s->fn)(s->rank); }
    catch (const std::exception &e) { *s->exc = std::string("std::exception: ") + e.what(); }
    catch (...) { *s->exc = "non-std exception"; }
    // sends whose buffers were never read must not dangle
    progress(s->rank, true);
    W.rank_fiber[s->rank] = 0;
    --W.alive;
    Fiber *root = (Fiber*)current_ctx()->user;
    if (W.alive == 0) wake(root);
    wake_all();
}
}

extern "C" {

int MPI_Init(int*, char***) { return MPI_SUCCESS; }
int MPI_Init_thread(int*, char***, int required, int *provided) { if (provided) *provided = required; return MPI_SUCCESS; }
int MPI_Finalize(void) { return MPI_SUCCESS; }

int MPI_Comm_rank(MPI_Comm comm, int *rank) { *rank = comm_rank_of(W.comms.at(comm), my_world_rank()); return MPI_SUCCESS; }
int MPI_Comm_size(MPI_Comm comm, int *size) { *size = (int)W.comms.at(comm).members.size(); return MPI_SUCCESS; }
int MPI_Comm_free(MPI_Comm *comm) { enter("Comm_free"); if (*comm > 0) W.comms.at(*comm).freed = true; *comm = MPI_COMM_NULL; return MPI_SUCCESS; }

int MPI_Comm_split(MPI_Comm comm, int color, int key, MPI_Comm *newcomm) {
    enter("Comm_split");
    int me = comm_rank_of(W.comms.at(comm), my_world_rank());
    std::shared_ptr<Coll> k = arrive(comm, K_SPLIT, 0, 0, color, key, [](Coll&) {});
    wait_until([&]() { return k->done; }, "MPI_Comm_split");
    *newcomm = k->newcomm[me];
    return MPI_SUCCESS;
}

int MPI_Barrier(MPI_Comm comm) {
    enter("Barrier");
    std::shared_ptr<Coll> k = arrive(comm, K_BARRIER, 0, 0, 0, 0, [](Coll&) {});
    wait_until([&]() { return k->done; }, "MPI_Barrier");
    return MPI_SUCCESS;
}

int MPI_Allreduce(const void *sendbuf, void *recvbuf, int count, MPI_Datatype t, MPI_Op op, MPI_Comm comm) {
    enter("Allreduce");
    std::shared_ptr<Coll> k = arrive(comm, K_ALLREDUCE, sendbuf, recvbuf, 0, 0, [&](Coll &c) { c.count = count; c.dtype = t; c.op = op; });
    wait_until([&]() { return k->done; }, "MPI_Allreduce");
    return MPI_SUCCESS;
}

int MPI_Exscan(const void *sendbuf, void *recvbuf, int count, MPI_Datatype t, MPI_Op op, MPI_Comm comm) {
    enter("Exscan");
    std::shared_ptr<Coll> k = arrive(comm, K_EXSCAN, sendbuf, recvbuf, 0, 0, [&](Coll &c) { c.count = count; c.dtype = t; c.op = op; });
    wait_until([&]() { return k->done; }, "MPI_Exscan");
    return MPI_SUCCESS;
}

int MPI_Allgather(const void *sendbuf, int sendcount, MPI_Datatype st, void *recvbuf, int recvcount, MPI_Datatype rt, MPI_Comm comm) {
    enter("Allgather");
    std::shared_ptr<Coll> k = arrive(comm, K_ALLGATHER, sendbuf, recvbuf, 0, 0, [&](Coll &c) { c.scount = sendcount; c.stype = st; c.rcount = recvcount; c.rtype = rt; });
    wait_until([&]() { return k->done; }, "MPI_Allgather");
    return MPI_SUCCESS;
}

int MPI_Gather(const void *sendbuf, int sendcount, MPI_Datatype st, void *recvbuf, int recvcount, MPI_Datatype rt, int root, MPI_Comm comm) {
    enter("Gather");
    std::shared_ptr<Coll> k = arrive(comm, K_GATHER, sendbuf, recvbuf, 0, recvcount, [&](Coll &c) { c.scount = sendcount; c.stype = st; c.rtype = rt; c.root = root; });
    wait_until([&]() { return k->done; }, "MPI_Gather");
    return MPI_SUCCESS;
}

int MPI_Alltoall(const void *sendbuf, int sendcount, MPI_Datatype st, void *recvbuf, int recvcount, MPI_Datatype rt, MPI_Comm comm) {
    enter("Alltoall");
    std::shared_ptr<Coll> k = arrive(comm, K_ALLTOALL, sendbuf, recvbuf, 0, 0, [&](Coll &c) { c.scount = sendcount; c.stype = st; c.rcount = recvcount; c.rtype = rt; });
    wait_until([&]() { return k->done; }, "MPI_Alltoall");
    return MPI_SUCCESS;
}

int MPI_Ialltoall(const void *sendbuf, int sendcount, MPI_Datatype st, void *recvbuf, int recvcount, MPI_Datatype rt, MPI_Comm comm, MPI_Request *req) {
    enter("Ialltoall");
    int id = new_request();
    W.reqs[id].kind = 3;
    W.reqs[id].coll = arrive(comm, K_ALLTOALL, sendbuf, recvbuf, 0, 0, [&](Coll &c) { c.scount = sendcount; c.stype = st; c.rcount = recvcount; c.rtype = rt; });
    *req = id;
    return MPI_SUCCESS;
}

int MPI_Isend(const void *buf, int count, MPI_Datatype t, int dest, int tag, MPI_Comm comm, MPI_Request *req) {
    enter("Isend");
    Comm &c = W.comms.at(comm); int wr = my_world_rank();
    std::shared_ptr<Msg> m = std::make_shared<Msg>();
    m->comm = comm; m->src = comm_rank_of(c, wr); m->dst = dest; m->tag = tag; m->owner = wr;
    m->bytes = type_size(t) * (size_t)count; m->live = buf; m->payload.resize(m->bytes);
    if (m->bytes) std::memcpy(m->payload.data(), buf, m->bytes);
    if (W.cfg.late_send_read && m->bytes) { m->read_done = false; m->countdown = 1 + (int)W.r.below(4); W.pending_reads[wr].push_back(m); }
    int id = new_request(); W.reqs[id].kind = 1; W.reqs[id].msg = m; *req = id;
    match_send(c, m);
    return MPI_SUCCESS;
}

int MPI_Irecv(void *buf, int count, MPI_Datatype t, int source, int tag, MPI_Comm comm, MPI_Request *req) {
    enter("Irecv");
    Comm &c = W.comms.at(comm); int wr = my_world_rank();
    RecvReq *rq = new RecvReq();        // heap object: W.reqs may reallocate while the request is matched
    rq->comm = comm; rq->src = source; rq->dst = comm_rank_of(c, wr); rq->tag = tag; rq->buf = buf; rq->bytes = type_size(t) * (size_t)count; rq->owner = wr;
    if (W.cfg.recv_poison && rq->bytes) {
        // the buffer belongs to MPI until the wait: fill it with a NaN pattern and hand the data over only at the wait
        unsigned char *b = (unsigned char*)buf; for (size_t i = 0; i < rq->bytes; ++i) b[i] = (i % 8 >= 6) ? 0xFF : 0xA5;
        rq->hold_until_wait = true; ++W.st.recv_poisoned;
    }
    int id = new_request(); W.reqs[id].kind = 2; W.reqs[id].rq = rq; *req = id;
    match_recv(W.comms.at(comm), rq);
    return MPI_SUCCESS;
}

static void wait_one(MPI_Request *req) {
    if (*req == MPI_REQUEST_NULL) return;
    int id = *req; int wr = my_world_rank();
    int kind = W.reqs.at(id).kind;
    if (kind == 1) {
        std::shared_ptr<Msg> m = W.reqs[id].msg;
        if (!m->read_done) {       // the wait is the last moment at which the buffer may be read
            std::vector<std::shared_ptr<Msg> > &p = W.pending_reads[wr];
            p.erase(std::remove(p.begin(), p.end(), m), p.end());
            do_read(m);
        }
    } else if (kind == 2) {
        RecvReq *rq = W.reqs[id].rq;
        rq->hold_until_wait = false;
        try_deliver(rq);
        wait_until([&]() { return rq->delivered; }, "MPI_Wait(receive)");
        delete rq;
    } else if (kind == 3) {
        std::shared_ptr<Coll> k = W.reqs[id].coll;
        wait_until([&]() { return k->done; }, "MPI_Wait(Ialltoall)");
    }
    W.reqs[id] = Request();
    *req = MPI_REQUEST_NULL;
}

int MPI_Wait(MPI_Request *req, MPI_Status*) { enter("Wait"); wait_one(req); return MPI_SUCCESS; }
int MPI_Waitall(int count, MPI_Request reqs[], MPI_Status*) {
    enter("Waitall");
    // seeded completion order of independent requests
    std::vector<int> order(count); for (int i = 0; i < count; ++i) order[i] = i;
    for (int i = count - 1; i > 0; --i) std::swap(order[i], order[W.r.below(i + 1)]);
    for (int i = 0; i < count; ++i) wait_one(&reqs[order[i]]);
    return MPI_SUCCESS;
}

int MPI_Send(const void *buf, int count, MPI_Datatype t, int dest, int tag, MPI_Comm comm) {
    enter("Send");
    Comm &c = W.comms.at(comm); int wr = my_world_rank();
    std::shared_ptr<Msg> m = std::make_shared<Msg>();
    m->comm = comm; m->src = comm_rank_of(c, wr); m->dst = dest; m->tag = tag; m->owner = wr;
    m->bytes = type_size(t) * (size_t)count; m->payload.resize(m->bytes);
    if (m->bytes) std::memcpy(m->payload.data(), buf, m->bytes);
    match_send(c, m);
    if (W.cfg.rendezvous) { ++W.st.rendezvous_sends; wait_until([&]() { return m->peer != 0; }, "MPI_Send (rendezvous: no matching receive posted)"); }
    else ++W.st.eager_sends;
    return MPI_SUCCESS;
}

int MPI_Recv(void *buf, int count, MPI_Datatype t, int source, int tag, MPI_Comm comm, MPI_Status*) {
    enter("Recv");
    Comm &c = W.comms.at(comm); int wr = my_world_rank();
    RecvReq rq; rq.comm = comm; rq.src = source; rq.dst = comm_rank_of(c, wr); rq.tag = tag; rq.buf = buf; rq.bytes = type_size(t) * (size_t)count; rq.owner = wr;
    match_recv(c, &rq);
    wait_until([&]() { return rq.delivered; }, "MPI_Recv");
    return MPI_SUCCESS;
}

int MPI_Type_contiguous(int count, MPI_Datatype oldtype, MPI_Datatype *newtype) {
    DT.derived.push_back(type_size(oldtype) * (size_t)count); DT.derived_base.push_back(oldtype); DT.derived_n.push_back(count);
    *newtype = AMGSIM_FIRST_DERIVED_TYPE + (int)DT.derived.size() - 1;
    return MPI_SUCCESS;
}
int MPI_Type_commit(MPI_Datatype*) { return MPI_SUCCESS; }

} // extern "C"
