// Simulated OpenMP runtime: the nine libgomp entry points amgcl reaches, on top of
// amgsim fibers.  The harness is compiled with -fopenmp and linked WITHOUT libgomp.
#include "sched.hpp"
#include <cstdio>
#include <cstdlib>

using namespace sim;

namespace {

struct TeamStart { void (*fn)(void*); void *data; };

void member_main(void *p) {
    TeamStart *ts = (TeamStart*)p;
    ts->fn(ts->data);
}

} // namespace

extern "C" {

int omp_get_max_threads(void) { return get_num_threads_max(); }
void omp_set_num_threads(int n) { set_num_threads(n); }
int omp_get_num_threads(void) { Team *t = fiber_team(current()); return t ? t->size : 1; }
int omp_get_thread_num(void) { return fiber_team(current()) ? fiber_tid(current()) : 0; }
double omp_get_wtime(void) { return (double)now(); }
int omp_in_parallel(void) { Team *t = fiber_team(current()); return t && t->size > 1; }
int omp_get_num_procs(void) { return get_num_threads_max(); }

void GOMP_parallel(void (*fn)(void*), void *data, unsigned num_threads, unsigned /*flags*/) {
    Fiber *me = current();
    Team *outer = fiber_team(me);
    int n = num_threads ? (int)num_threads : get_num_threads_max();
    if (outer) { n = 1; SIM_PROBE("nested_parallel"); }   // max-active-levels = 1, as libgomp's default
    if (!in_world()) n = 1;
    if (n <= 1) {
        Team one; one.size = 1;
        int otid = fiber_tid(me); int oseen = fiber_single_seen(me);
        fiber_set_team(me, &one, 0); fiber_single_seen(me) = 0;
        fn(data);
        fiber_set_team(me, outer, otid); fiber_single_seen(me) = oseen;
        return;
    }
    static int team_ids = 0;
    Team team; team.size = n; team.remaining = n; team.parent = me; team.id = ++team_ids;
    TeamStart ts = { fn, data };
    Ctx *ctx = current_ctx();
    for (int i = 0; i < n; ++i) spawn(member_main, &ts, ctx, &team, i, i);
    SIM_PROBE("team_forks");
    while (team.remaining > 0) block(P_FORK, "join of parallel region");
}

void GOMP_barrier(void) {
    Fiber *me = current();
    Team *t = fiber_team(me);
    if (!t || t->size <= 1) return;
    if (++t->arrived < t->size) {
        uint64_t ep = t->epoch;
        t->waiting.push_back(me);
        while (t->epoch == ep) block(P_BARRIER, "barrier");
    } else {
        t->arrived = 0; ++t->epoch;
        for (size_t i = 0; i < t->waiting.size(); ++i) wake(t->waiting[i]);
        t->waiting.clear();
        yield(P_BARRIER);     // the releaser is just one of the runnable fibers
    }
}

void GOMP_critical_start(void) {
    Fiber *me = current();
    Team *t = fiber_team(me);
    Ctx *c = current_ctx();
    if (!in_world()) return;
    if (t && t->size > 1) yield(P_CRIT_ENTER);
    bool contended = false;
    while (c->crit_held) {
        contended = true;
        c->crit_waiters.push_back(me);
        block(P_CRIT_ENTER, "critical section");
    }
    if (contended) SIM_PROBE("critical_contended");
    c->crit_held = true; c->crit_owner = me;
}

void GOMP_critical_end(void) {
    Ctx *c = current_ctx();
    if (!in_world()) return;
    c->crit_held = false; c->crit_owner = 0;
    for (size_t i = 0; i < c->crit_waiters.size(); ++i) wake(c->crit_waiters[i]);
    c->crit_waiters.clear();
    Team *t = fiber_team(current());
    if (t && t->size > 1) yield(P_CRIT_LEAVE);
}

bool GOMP_single_start(void) {
    Fiber *me = current();
    Team *t = fiber_team(me);
    if (!t || t->size <= 1) return true;
    yield(P_SINGLE);      // which member wins is the scheduler's choice
    int mine = fiber_single_seen(me)++;
    if (mine == t->single_claimed) {
        ++t->single_claimed;
        if (fiber_tid(me) != 0) SIM_PROBE("single_won_by_nonzero_tid");
        return true;
    }
    return false;
}

} // extern "C"
