#include "sched.hpp"
#include <ucontext.h>
#include <sys/mman.h>
#include <cstdlib>
#include <cstdio>
#include <cstring>
#include <algorithm>
#include <cxxabi.h>

#if defined(__SANITIZE_ADDRESS__)
extern "C" {
void __sanitizer_start_switch_fiber(void **fake_stack_save, const void *bottom, size_t size);
void __sanitizer_finish_switch_fiber(void *fake_stack_save, const void **bottom_old, size_t *size_old);
}
#define SIM_ASAN 1
#else
#define SIM_ASAN 0
#endif

namespace __cxxabiv1 { struct __cxa_eh_globals; extern "C" __cxa_eh_globals* __cxa_get_globals() throw(); }

#if !SIM_ASAN
// Minimal x86-64 context switch (callee-saved registers, mxcsr, x87 control word).  swapcontext() costs two
// sigprocmask system calls per switch; a simulated solve makes millions of switches.
extern "C" void amgsim_switch(void **from_sp, void *to_sp);
asm(R"(
.text
.globl amgsim_switch
.type amgsim_switch,@function
amgsim_switch:
    pushq %rbp
    pushq %rbx
    pushq %r12
    pushq %r13
    pushq %r14
    pushq %r15
    subq $8, %rsp
    stmxcsr (%rsp)
    fnstcw 4(%rsp)
    movq %rsp, (%rdi)
    movq %rsi, %rsp
    ldmxcsr (%rsp)
    fldcw 4(%rsp)
    addq $8, %rsp
    popq %r15
    popq %r14
    popq %r13
    popq %r12
    popq %rbx
    popq %rbp
    ret
.size amgsim_switch,.-amgsim_switch
)");
#endif

namespace sim {

// two stack classes: team members run only parallel-region bodies (small), MPI ranks run whole programs (large).
// ASan clears the shadow of the target stack on every swapcontext, so small stacks matter there.
#if defined(__SANITIZE_ADDRESS__)
static const size_t STACK_SMALL = 256u << 10, STACK_LARGE = 8u << 20;
#else
static const size_t STACK_SMALL = 1u << 20, STACK_LARGE = 8u << 20;
#endif
static const size_t EH_SIZE = 2 * sizeof(void*);

struct Fiber {
    int id = 0;
    ucontext_t uc;
    void *sp = 0;
    char *stack = 0; size_t stack_size = 0;
    enum { RUNNABLE, BLOCKED, DONE } state = RUNNABLE;
    entry_t fn = 0; void *arg = 0;
    Ctx *ctx = 0; Team *team = 0; int tid = 0; int single_seen = 0;
    long prio = 0; int starve_key = -1;
    char eh[EH_SIZE];
    const char *why = "";
    void *user = 0;
    void *fake_stack = 0;
    bool started = false;
};

static int g_stack_fill = 0xAA;

const char* strategy_name(int s) {
    static const char *n[] = {"canonical","reverse","random","pct","starve","explicit"};
    return (s >= 0 && s < NSTRATEGY) ? n[s] : "?";
}
int strategy_from_name(const std::string &s) {
    for (int i = 0; i < NSTRATEGY; ++i) if (s == strategy_name(i)) return i;
    return CANONICAL;
}

namespace {

struct World {
    bool active = false;
    SchedConfig cfg;
    rng srng, frng;
    std::vector<Fiber*> fibers;        // live fibers in id order (root first)
    std::vector<Fiber*> graveyard;     // finished, stack still possibly in use
    std::vector<char*> free_stacks[2];
    std::vector<Ctx*> ctxs;
    Fiber *cur = 0, *root = 0;
    int next_id = 0;
    int nrunnable = 0;
    uint64_t decisions = 0, points = 0, switches = 0, hash = 0, nfibers = 0;
    std::vector<deviation> taken;
    size_t next_dev = 0;               // EXPLICIT cursor
    std::vector<uint64_t> pct_points;  // sorted change points
    size_t next_pct = 0; long pct_low = 0;
    ucontext_t escape;
    volatile int aborted = 0;
    volatile bool abort_switched = false;
    std::string blocked;
    Ctx root_ctx;
    const void *root_stack_bottom = 0; size_t root_stack_size = 0;
} g;

Fiber outside_fiber;   // identity used when no world is running
Ctx   outside_ctx;

char* get_stack(size_t size) {
    std::vector<char*> &fs = g.free_stacks[size == STACK_LARGE];
    if (!fs.empty()) { char *s = fs.back(); fs.pop_back(); return s; }
    void *p = mmap(0, size, PROT_READ|PROT_WRITE, MAP_PRIVATE|MAP_ANONYMOUS|MAP_NORESERVE, -1, 0);
    if (p == MAP_FAILED) { fprintf(stderr, "amgsim: mmap stack failed\n"); abort(); }
    return (char*)p;
}

void reap() {
    for (size_t i = 0; i < g.graveyard.size(); ) {
        Fiber *f = g.graveyard[i];
        if (f != g.cur) {
            if (f->stack) g.free_stacks[f->stack_size == STACK_LARGE].push_back(f->stack);
            delete f;
            g.graveyard[i] = g.graveyard.back(); g.graveyard.pop_back();
        } else ++i;
    }
}

void switch_to(Fiber *to) {
    Fiber *from = g.cur;
    if (to == from) return;
    ++g.switches;
    memcpy(from->eh, (void*)__cxxabiv1::__cxa_get_globals(), EH_SIZE);
    g.cur = to;
#if SIM_ASAN
    const void *bottom; size_t size;
    if (to == g.root) { bottom = g.root_stack_bottom; size = g.root_stack_size; }
    else { bottom = to->stack; size = to->stack_size; }
    __sanitizer_start_switch_fiber(from->state == Fiber::DONE ? 0 : &from->fake_stack, bottom, size);
#endif
#if SIM_ASAN
    swapcontext(&from->uc, &to->uc);
#else
    amgsim_switch(&from->sp, to->sp);
#endif
    // back on 'from'
#if SIM_ASAN
    {
        const void *ob; size_t os;
        __sanitizer_finish_switch_fiber(from->fake_stack, &ob, &os);
        if (from == g.root && !g.root_stack_bottom) { /* learnt elsewhere */ }
    }
#endif
    memcpy((void*)__cxxabiv1::__cxa_get_globals(), from->eh, EH_SIZE);
}

void describe_blocked() {
    g.blocked.clear();
    for (size_t i = 0; i < g.fibers.size(); ++i) {
        Fiber *f = g.fibers[i];
        if (f->state == Fiber::DONE) continue;
        char buf[256];
        snprintf(buf, sizeof buf, "fiber %d (rank %d tid %d) %s: %s; ", f->id, f->ctx ? f->ctx->rank : -1, f->tid,
                 f->state == Fiber::BLOCKED ? "blocked" : "runnable", f->why ? f->why : "");
        g.blocked += buf;
    }
}

std::string g_abort_note;
void abort_world(int why) {
    g.aborted = why;
    describe_blocked();
    if (!g_abort_note.empty()) { g.blocked = g_abort_note + "; " + g.blocked; g_abort_note.clear(); }
    // abandon every fiber: jump back into run_world on the root stack
    Fiber *from = g.cur;
    g.cur = g.root;
    g.abort_switched = (from != g.root);
#if SIM_ASAN
    if (from != g.root) __sanitizer_start_switch_fiber(0, g.root_stack_bottom, g.root_stack_size);
#endif
    setcontext(&g.escape);
}

// choose the next fiber to run; 'cur_ok' tells whether the current fiber may continue
Fiber* pick(int point) {
    ++g.points;
    Fiber *cands[256]; int n = 0;
    Fiber *canon = 0;
    for (size_t i = 0; i < g.fibers.size() && n < 256; ++i) {
        Fiber *f = g.fibers[i];
        if (f->state == Fiber::RUNNABLE) cands[n++] = f;
    }
    if (n == 0) return 0;
    if (g.cur->state == Fiber::RUNNABLE) canon = g.cur; else canon = cands[0];
    Fiber *chosen = canon;
    if (n > 1) {
        uint64_t d = g.decisions++;
        if (g.decisions > g.cfg.max_decisions) abort_world(ST_BUDGET);
        switch (g.cfg.strategy) {
            case CANONICAL: break;
            case REVERSE:
                // highest id first, but a running fiber keeps running until it blocks only under
                // CANONICAL; REVERSE prefers the highest id at every point
                chosen = cands[n-1]; break;
            case RANDOM:
                chosen = cands[g.srng.below(n)]; break;
            case PCT: {
                while (g.next_pct < g.pct_points.size() && g.pct_points[g.next_pct] <= d) {
                    if (g.cur->state == Fiber::RUNNABLE) g.cur->prio = --g.pct_low;
                    ++g.next_pct;
                }
                chosen = cands[0];
                for (int i = 1; i < n; ++i) if (cands[i]->prio > chosen->prio) chosen = cands[i];
                break; }
            case STARVE: {
                Fiber *nonst[256]; int m = 0;
                for (int i = 0; i < n; ++i) if (cands[i]->starve_key != g.cfg.starve) nonst[m++] = cands[i];
                if (m == 0) chosen = cands[g.srng.below(n)];
                else chosen = nonst[g.srng.below(m)];
                break; }
            case EXPLICIT: {
                while (g.next_dev < g.cfg.deviations.size() && g.cfg.deviations[g.next_dev].first < d) ++g.next_dev;
                if (g.next_dev < g.cfg.deviations.size() && g.cfg.deviations[g.next_dev].first == d) {
                    int want = g.cfg.deviations[g.next_dev].second; ++g.next_dev;
                    for (int i = 0; i < n; ++i) if (cands[i]->id == want) { chosen = cands[i]; break; }
                }
                break; }
        }
        if (chosen != canon) g.taken.push_back(deviation(d, chosen->id));
        g.hash = hash_combine(g.hash, (d << 20) ^ ((uint64_t)point << 12) ^ (uint64_t)chosen->id);
    }
    return chosen;
}

void resched(int point) {
    Fiber *nx = pick(point);
    if (!nx) abort_world(ST_DEADLOCK);
    switch_to(nx);
}

void trampoline() {
    Fiber *f = g.cur;
#if SIM_ASAN
    { const void *ob; size_t os; __sanitizer_finish_switch_fiber(0, &ob, &os);
      if (!g.root_stack_bottom && ob) { /* first switch away from root tells us root's bounds */ g.root_stack_bottom = ob; g.root_stack_size = os; } }
#endif
    // fresh exception state for a fresh fiber
    memset((void*)__cxxabiv1::__cxa_get_globals(), 0, EH_SIZE);
    f->started = true;
    f->fn(f->arg);
    f->state = Fiber::DONE; --g.nrunnable;
    f->why = "done";
    // remove from live list
    g.fibers.erase(std::find(g.fibers.begin(), g.fibers.end(), f));
    g.graveyard.push_back(f);
    Team *t = f->team;
    if (t && --t->remaining == 0 && t->parent) wake(t->parent);
    resched(P_DONE);
    abort();   // never resumed
}

} // anonymous

void set_stack_fill(int byte) { g_stack_fill = byte; }
bool in_world() { return g.active; }

Fiber* current() { return g.active ? g.cur : &outside_fiber; }
int fiber_id(Fiber *f) { return f->id; }
Ctx* current_ctx() { return g.active ? g.cur->ctx : &outside_ctx; }
Ctx* new_ctx(int rank) { Ctx *c = new Ctx(); c->rank = rank; c->nt_max = current_ctx()->nt_max; g.ctxs.push_back(c); return c; }
Team* fiber_team(Fiber *f) { return f->team; }
int fiber_tid(Fiber *f) { return f->tid; }
void fiber_set_team(Fiber *f, Team *t, int tid) { f->team = t; f->tid = tid; }
int& fiber_single_seen(Fiber *f) { return f->single_seen; }
void*& fiber_user(Fiber *f) { return f->user; }
int fiber_starve_key(Fiber *f) { return f->starve_key; }
uint64_t now() { return g.points; }
rng& fault_rng() { return g.frng; }
void set_fault_seed(uint64_t s) { g.frng = rng(s); }

void set_num_threads(int nt) { current_ctx()->nt_max = nt < 1 ? 1 : nt; }
int get_num_threads_max() { return current_ctx()->nt_max; }

void note(uint64_t v) { if (g.active) g.hash = hash_combine(g.hash, v ^ 0x5bd1e995); }

Fiber* spawn(entry_t fn, void *arg, Ctx *ctx, Team *team, int tid, int starve_key) {
    reap();
    Fiber *f = new Fiber();
    f->id = g.next_id++;
    f->fn = fn; f->arg = arg; f->ctx = ctx; f->team = team; f->tid = tid; f->starve_key = starve_key;
    f->stack_size = team ? STACK_SMALL : STACK_LARGE;
    f->stack = get_stack(f->stack_size);
    f->prio = (g.cfg.strategy == PCT) ? (long)(g.srng.next() >> 2) : 0;
#if !SIM_ASAN
    // pre-dirtied stack: whatever a fresh frame finds there must not matter (uninitialised stack arrays)
    { size_t d = 8u << 10; memset(f->stack + f->stack_size - d, g_stack_fill, d); }
#endif
#if SIM_ASAN
    getcontext(&f->uc);
    f->uc.uc_stack.ss_sp = f->stack; f->uc.uc_stack.ss_size = f->stack_size; f->uc.uc_link = 0;
    makecontext(&f->uc, (void(*)())trampoline, 0);
#else
    {
        // initial frame for amgsim_switch: [mxcsr|fpucw][r15][r14][r13][r12][rbx][rbp][return address -> trampoline]
        uintptr_t top = ((uintptr_t)(f->stack + f->stack_size)) & ~(uintptr_t)15;
        uint64_t *q = (uint64_t*)(top - 16);        // return address slot (16-byte aligned, so rsp = 8 mod 16 on entry)
        q[0] = (uint64_t)(void(*)())trampoline; q[1] = 0;
        for (int i = 1; i <= 6; ++i) q[-i] = 0;     // rbp, rbx, r12..r15
        uint32_t *cw = (uint32_t*)(q - 7); cw[0] = 0x1F80; cw[1] = 0x037F;
        f->sp = (void*)(q - 7);
    }
#endif
    f->state = Fiber::RUNNABLE; ++g.nrunnable; ++g.nfibers;
    g.fibers.push_back(f);
    return f;
}

void yield(int point) {
    if (!g.active) return;
    if (g.nrunnable <= 1) { ++g.points; return; }
    resched(point);
}

void block(int point, const char *why) {
    Fiber *f = g.cur;
    f->state = Fiber::BLOCKED; --g.nrunnable; f->why = why;
    resched(point);
    f->why = "";
}

void wake(Fiber *f) {
    if (f->state == Fiber::BLOCKED) { f->state = Fiber::RUNNABLE; ++g.nrunnable; }
}
bool is_blocked(Fiber *f) { return f->state == Fiber::BLOCKED; }

bool maybe_preempt() {
    if (!g.active || g.nrunnable <= 1) return false;
    if (g.cfg.strategy == EXPLICIT) {
        // an access is a decision point only if a deviation is recorded for it; the index space is shared
        uint64_t d = g.decisions;
        while (g.next_dev < g.cfg.deviations.size() && g.cfg.deviations[g.next_dev].first < d) ++g.next_dev;
        if (g.next_dev < g.cfg.deviations.size() && g.cfg.deviations[g.next_dev].first == d) { resched(P_ACCESS); return true; }
        ++g.decisions; ++g.points;
        return false;
    }
    if (g.cfg.preempt_p <= 0) { ++g.decisions; ++g.points; return false; }
    if (g.srng.unit() < g.cfg.preempt_p) {
        // choose uniformly among the *other* runnable fibers
        uint64_t d = g.decisions++; ++g.points;
        Fiber *cands[256]; int n = 0;
        for (size_t i = 0; i < g.fibers.size() && n < 256; ++i) {
            Fiber *f = g.fibers[i];
            if (f->state == Fiber::RUNNABLE && f != g.cur) cands[n++] = f;
        }
        if (!n) return false;
        Fiber *c = cands[g.srng.below(n)];
        g.taken.push_back(deviation(d, c->id));
        g.hash = hash_combine(g.hash, (d << 20) ^ ((uint64_t)P_ACCESS << 12) ^ (uint64_t)c->id);
        switch_to(c);
        return true;
    }
    ++g.decisions; ++g.points;
    return false;
}

// a runtime (simulated MPI) found the world in a state no conforming execution can leave: treat like a deadlock
void fail_world(const char *why) { g_abort_note = why; abort_world(ST_DEADLOCK); }

// directed re-runs (trace flavour): give the processor to a particular team member, or to anybody else
bool yield_to_tid(Team *t, int tid) {
    if (!g.active) return false;
    for (size_t i = 0; i < g.fibers.size(); ++i) { Fiber *f = g.fibers[i]; if (f != g.cur && f->team == t && f->tid == tid && f->state == Fiber::RUNNABLE) { ++g.points; switch_to(f); return true; } }
    for (size_t i = 0; i < g.fibers.size(); ++i) { Fiber *f = g.fibers[i]; if (f != g.cur && f->state == Fiber::RUNNABLE) { ++g.points; switch_to(f); return true; } }
    return false;
}

RunStatus run_world(const SchedConfig &cfg, const std::function<void()> &fn) {
    if (g.active) { fprintf(stderr, "amgsim: nested run_world\n"); abort(); }
    RunStatus st;
    g.cfg = cfg;
    std::sort(g.cfg.deviations.begin(), g.cfg.deviations.end());
    g.srng = rng(cfg.seed, "schedule");
    g.frng = rng(cfg.seed, "fault");
    g.fibers.clear(); g.taken.clear(); g.next_dev = 0;
    g.decisions = g.points = g.switches = g.nfibers = 0; g.hash = 0x1234567;
    g.next_id = 0; g.aborted = 0; g.blocked.clear();
    g.pct_points.clear(); g.next_pct = 0; g.pct_low = 0;
    if (cfg.strategy == PCT) {
        for (int i = 0; i < cfg.pct_depth; ++i) g.pct_points.push_back(g.srng.below(cfg.pct_len ? cfg.pct_len : 1));
        std::sort(g.pct_points.begin(), g.pct_points.end());
    }
    Fiber *root = new Fiber();
    root->id = g.next_id++; root->state = Fiber::RUNNABLE; root->ctx = &g.root_ctx; root->started = true;
    root->prio = (cfg.strategy == PCT) ? (long)(g.srng.next() >> 2) : 0;
    g.root_ctx = Ctx(); g.root_ctx.nt_max = outside_ctx.nt_max;
    g.root = g.cur = root; g.fibers.push_back(root); g.nrunnable = 1;
    g.active = true;

    struct Cleanup {
        ~Cleanup() {
            // drop every fiber but keep stacks for reuse
            for (size_t i = 0; i < g.fibers.size(); ++i) { Fiber *f = g.fibers[i]; if (f->stack) g.free_stacks[f->stack_size == STACK_LARGE].push_back(f->stack); delete f; }
            for (size_t i = 0; i < g.graveyard.size(); ++i) { Fiber *f = g.graveyard[i]; if (f->stack) g.free_stacks[f->stack_size == STACK_LARGE].push_back(f->stack); delete f; }
            g.fibers.clear(); g.graveyard.clear();
            for (size_t i = 0; i < g.ctxs.size(); ++i) delete g.ctxs[i];
            g.ctxs.clear();
            g.cur = g.root = 0; g.active = false;
        }
    } cleanup;

    getcontext(&g.escape);
    if (g.aborted) {
#if SIM_ASAN
        if (g.abort_switched) { const void *ob; size_t os; __sanitizer_finish_switch_fiber(0, &ob, &os); }
#endif
        memset((void*)__cxxabiv1::__cxa_get_globals(), 0, EH_SIZE);
        st.status = g.aborted;
        st.blocked = g.blocked;
    } else {
        fn();
    }
    st.decisions = g.decisions; st.points = g.points; st.switches = g.switches; st.hash = g.hash;
    st.fibers = g.nfibers; st.deviations = g.taken;
    return st;
}

// ---- probes ---------------------------------------------------------------
namespace {
    struct ProbeRec { const char *name; uint64_t n; };
    ProbeRec probes[256]; int nprobes = 0;
}
int probe_index(const char *name) {
    for (int i = 0; i < nprobes; ++i) if (!strcmp(probes[i].name, name)) return i;
    if (nprobes >= 256) return 255;
    probes[nprobes].name = name; probes[nprobes].n = 0;
    return nprobes++;
}
void probe_hit(int idx, uint64_t n) { probes[idx].n += n; }
void probes_reset() { for (int i = 0; i < nprobes; ++i) probes[i].n = 0; }
std::vector<std::pair<std::string,uint64_t> > probes_snapshot() {
    std::vector<std::pair<std::string,uint64_t> > r;
    for (int i = 0; i < nprobes; ++i) if (probes[i].n) r.push_back(std::make_pair(std::string(probes[i].name), probes[i].n));
    return r;
}

} // namespace sim
