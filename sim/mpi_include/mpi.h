/* amgsim replacement for <mpi.h>: the subset amgcl/mpi uses.  Ranks are fibers of one process; every handle is an
 * index into a simulator table (sim/mpi.cpp). */
#ifndef AMGSIM_MPI_H
#define AMGSIM_MPI_H
#include <stddef.h>
#ifdef __cplusplus
extern "C" {
#endif

#define MPI_VERSION 3
#define MPI_SUBVERSION 1
#define AMGSIM_MPI 1

typedef int MPI_Comm;
typedef int MPI_Datatype;
typedef int MPI_Op;
typedef int MPI_Request;
typedef struct { int MPI_SOURCE, MPI_TAG, MPI_ERROR; } MPI_Status;

#define MPI_SUCCESS 0
#define MPI_COMM_WORLD 0
#define MPI_COMM_NULL (-1)
#define MPI_REQUEST_NULL (-1)
#define MPI_UNDEFINED (-32766)
#define MPI_STATUS_IGNORE ((MPI_Status*)0)
#define MPI_STATUSES_IGNORE ((MPI_Status*)0)
#define MPI_THREAD_MULTIPLE 3

enum { MPI_DATATYPE_NULL = 0, MPI_CHAR, MPI_INT, MPI_UNSIGNED, MPI_LONG, MPI_UNSIGNED_LONG, MPI_LONG_LONG_INT, MPI_UNSIGNED_LONG_LONG,
       MPI_FLOAT, MPI_DOUBLE, MPI_LONG_DOUBLE, MPI_CXX_FLOAT_COMPLEX, MPI_CXX_DOUBLE_COMPLEX, MPI_BYTE, AMGSIM_FIRST_DERIVED_TYPE = 64 };
#define MPI_LONG_LONG MPI_LONG_LONG_INT
enum { MPI_OP_NULL = 0, MPI_SUM, MPI_PROD, MPI_MAX, MPI_MIN };

int MPI_Init(int *argc, char ***argv);
int MPI_Init_thread(int *argc, char ***argv, int required, int *provided);
int MPI_Finalize(void);
int MPI_Comm_rank(MPI_Comm comm, int *rank);
int MPI_Comm_size(MPI_Comm comm, int *size);
int MPI_Comm_split(MPI_Comm comm, int color, int key, MPI_Comm *newcomm);
int MPI_Comm_free(MPI_Comm *comm);
int MPI_Barrier(MPI_Comm comm);
int MPI_Allreduce(const void *sendbuf, void *recvbuf, int count, MPI_Datatype t, MPI_Op op, MPI_Comm comm);
int MPI_Allgather(const void *sendbuf, int sendcount, MPI_Datatype st, void *recvbuf, int recvcount, MPI_Datatype rt, MPI_Comm comm);
int MPI_Gather(const void *sendbuf, int sendcount, MPI_Datatype st, void *recvbuf, int recvcount, MPI_Datatype rt, int root, MPI_Comm comm);
int MPI_Alltoall(const void *sendbuf, int sendcount, MPI_Datatype st, void *recvbuf, int recvcount, MPI_Datatype rt, MPI_Comm comm);
int MPI_Ialltoall(const void *sendbuf, int sendcount, MPI_Datatype st, void *recvbuf, int recvcount, MPI_Datatype rt, MPI_Comm comm, MPI_Request *req);
int MPI_Exscan(const void *sendbuf, void *recvbuf, int count, MPI_Datatype t, MPI_Op op, MPI_Comm comm);
int MPI_Send(const void *buf, int count, MPI_Datatype t, int dest, int tag, MPI_Comm comm);
int MPI_Recv(void *buf, int count, MPI_Datatype t, int source, int tag, MPI_Comm comm, MPI_Status *status);
int MPI_Isend(const void *buf, int count, MPI_Datatype t, int dest, int tag, MPI_Comm comm, MPI_Request *req);
int MPI_Irecv(void *buf, int count, MPI_Datatype t, int source, int tag, MPI_Comm comm, MPI_Request *req);
int MPI_Wait(MPI_Request *req, MPI_Status *status);
int MPI_Waitall(int count, MPI_Request reqs[], MPI_Status statuses[]);
int MPI_Type_contiguous(int count, MPI_Datatype oldtype, MPI_Datatype *newtype);
int MPI_Type_commit(MPI_Datatype *t);

#ifdef __cplusplus
}
#endif
#endif
