// Memory-access seam: the check is compiled with -fsanitize=thread but linked WITHOUT libtsan; sim/trace.cpp supplies
// the __tsan_* callbacks.  Inside a simulated parallel region every instrumented load/store is (a) a possible
// preemption point of the seeded scheduler and (b) an event for a happens-before conflict detector (edges: fork, join,
// barrier epochs, the critical section, free -> reuse of a block).
#ifndef AMGSIM_TRACE_HPP
#define AMGSIM_TRACE_HPP
#include <cstdint>
#include <vector>
#include <string>

namespace simtrace {

struct Access { int region; int tid; uint64_t index; uintptr_t pc; bool write; };   // index: ordinal of the access in (region, tid)
struct Conflict { Access a, b; uintptr_t addr; uint64_t count; };                    // a happened first in the recording run

struct Directive { bool active = false; int region = -1; int hold_tid = -1; uint64_t hold_index = 0; int until_tid = -1; uint64_t until_index = 0; bool released = false; bool gave_up = false; };

void enable(bool on);                    // tracing only inside the world under test
void reset();                            // new world: forget shadow state, candidates, counters
uint64_t accesses();                     // instrumented accesses inside parallel regions ("micro-ticks")
uint64_t regions();
const std::vector<Conflict>& conflicts();
void set_directive(const Directive &d);  // directed re-run: hold one access until another one happened
Directive directive_state();
std::string describe(uintptr_t pc);      // "0x4012ab" (symbolised lazily by the runner with addr2line)
void purge(void *p, size_t n);           // called by the simulated allocator when a block is freed

} // namespace simtrace
#endif
