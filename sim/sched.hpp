// amgsim scheduler: cooperative fibers on one OS thread; a seeded strategy
// decides at every scheduling point which runnable fiber continues.
#ifndef AMGSIM_SCHED_HPP
#define AMGSIM_SCHED_HPP
#include <cstdint>
#include <cstddef>
#include <vector>
#include <string>
#include <functional>
#include <utility>
#include "rng.hpp"

namespace sim {

enum Strategy { CANONICAL = 0, REVERSE = 1, RANDOM = 2, PCT = 3, STARVE = 4, EXPLICIT = 5, NSTRATEGY = 6 };
const char* strategy_name(int s);
int strategy_from_name(const std::string &s);

// kinds of scheduling points (hashed into the event log)
enum Point { P_FORK = 1, P_JOIN, P_BARRIER, P_CRIT_ENTER, P_CRIT_LEAVE, P_SINGLE, P_DONE,
             P_MPI_CALL, P_MPI_BLOCK, P_ACCESS, P_USER };

typedef std::pair<uint64_t,int> deviation;   // (decision index, fiber id chosen instead of the canonical one)

struct SchedConfig {
    int      strategy = CANONICAL;
    uint64_t seed     = 0;        // stream for RANDOM / PCT
    int      pct_depth = 2;       // number of priority change points
    uint64_t pct_len   = 64;      // horizon (decisions) over which change points are placed
    int      starve    = 0;       // starve key (tid / rank) for STARVE
    double   preempt_p = 0;       // trace build: probability of a preemption at an instrumented access
    uint64_t max_decisions = 2000000000ULL;   // tick budget (bounded liveness / runaway guard)
    std::vector<deviation> deviations;       // EXPLICIT: replay exactly these deviations from canonical
};

enum Status { ST_OK = 0, ST_DEADLOCK = 1, ST_BUDGET = 2 };

struct RunStatus {
    int      status = ST_OK;
    uint64_t decisions = 0;      // decision points with >= 2 candidates
    uint64_t points = 0;         // all scheduling points ("ticks")
    uint64_t switches = 0;       // context switches
    uint64_t hash = 0;           // event-log hash (decision sequence + notes)
    uint64_t fibers = 0;
    std::vector<deviation> deviations;   // deviations from canonical actually taken
    std::string blocked;         // deadlock report: what every unfinished fiber waits for
};

struct Ctx;     // per simulated process (MPI rank) OpenMP state
struct Team;
struct Fiber;

typedef void (*entry_t)(void*);

// ---- world ---------------------------------------------------------------
// Runs fn on the root fiber under the given schedule configuration.  Exceptions
// thrown by fn on the root fiber propagate.  On deadlock / budget exhaustion the
// world is abandoned (fiber stacks are dropped) and the status says so.
RunStatus run_world(const SchedConfig &cfg, const std::function<void()> &fn);
bool in_world();
void fail_world(const char *why);     // abandon the world with status ST_DEADLOCK and this note in front of the blocked report
void set_stack_fill(int byte);     // content of the top of every fresh fiber stack (plain/trace flavours)

// mix a value into the event-log hash (never draws randomness, never reads a clock)
void note(uint64_t v);

// ---- fiber API (used by gomp.cpp / mpi.cpp / trace.cpp) ------------------
Fiber* current();
int    fiber_id(Fiber*);
Ctx*   current_ctx();
Ctx*   new_ctx(int rank);           // owned by the world, freed at the end of run_world
Fiber* spawn(entry_t fn, void *arg, Ctx *ctx, Team *team, int tid, int starve_key);
void   yield(int point);             // scheduling point; caller stays runnable
void   block(int point, const char *why);  // caller blocks until wake(); then returns when scheduled
void   wake(Fiber*);
bool   is_blocked(Fiber*);
uint64_t now();                      // simulated time = scheduling points so far
rng&   fault_rng();                  // stream for fault decisions taken inside runtimes (mpi)
void   set_fault_seed(uint64_t);

// ---- OpenMP side ----------------------------------------------------------
void set_num_threads(int nt);        // what omp_get_max_threads() returns for the current process context
int  get_num_threads_max();

// ---- probes ("this rare condition was hit") -------------------------------
int  probe_index(const char *name);
void probe_hit(int idx, uint64_t n = 1);
void probes_reset();
inline void probes_reset_run() {}
std::vector<std::pair<std::string,uint64_t> > probes_snapshot();
#define SIM_PROBE(name) do { static int sim_probe_idx_ = ::sim::probe_index(name); ::sim::probe_hit(sim_probe_idx_); } while (0)
#define SIM_PROBE_N(name, n) do { static int sim_probe_idx_ = ::sim::probe_index(name); ::sim::probe_hit(sim_probe_idx_, (n)); } while (0)

// internal structures exposed for the runtimes
struct Team {
    int size = 1;
    int arrived = 0;
    int remaining = 0;
    int single_claimed = 0;
    Fiber *parent = 0;
    std::vector<Fiber*> waiting;
    uint64_t epoch = 0;        // barrier epoch (trace build)
    int id = 0;
};

struct Ctx {
    int  rank = -1;
    int  nt_max = 1;
    bool crit_held = false;
    Fiber *crit_owner = 0;
    std::vector<Fiber*> crit_waiters;
    void *user = 0;            // mpi.cpp hangs its per-rank state here
};

Team*  fiber_team(Fiber*);
int    fiber_tid(Fiber*);
void   fiber_set_team(Fiber*, Team*, int tid);
int&   fiber_single_seen(Fiber*);
void*& fiber_user(Fiber*);      // trace.cpp: vector clock etc.
int    fiber_starve_key(Fiber*);

// trace build hook: called by trace.cpp at instrumented accesses
bool   maybe_preempt();         // draws from the schedule stream; true if a switch happened

} // namespace sim
#endif
