#include "trace.hpp"
#include "sched.hpp"
#include <cstring>
#include <cstdio>
#include <cstdlib>

namespace sim { bool yield_to_tid(Team *t, int tid); }

namespace {

using namespace sim;

// no STL containers in the hot path: this code runs inside the replaced operator new/delete and inside every access
struct Shadow {
    uintptr_t granule; uint32_t gen; int team; uint64_t epoch;
    int w_tid; uint8_t w_mask; bool w_crit; uintptr_t w_pc; uint64_t w_idx;
    int r_tid[2]; uint8_t r_mask[2]; bool r_crit[2]; uintptr_t r_pc[2]; uint64_t r_idx[2];
};
const size_t TABLE = 1u << 20;
Shadow *table = 0;
uint32_t gen = 1;
bool on = false;
uint64_t n_access = 0, n_regions = 0;
int cur_team = -1, region = -1;
uint64_t idx[64];
std::vector<simtrace::Conflict> found;
simtrace::Directive dir;

inline Shadow* slot(uintptr_t g, bool create) {
    size_t h = (size_t)((g * 0x9E3779B97F4A7C15ULL) >> 44) & (TABLE - 1);
    for (size_t probe = 0; probe < 64; ++probe) {
        Shadow &s = table[(h + probe) & (TABLE - 1)];
        if (s.gen == gen && s.granule == g) return &s;
        if (s.gen != gen) { if (!create) return 0; memset(&s, 0, sizeof s); s.gen = gen; s.granule = g; s.team = -1; s.w_tid = -1; s.r_tid[0] = s.r_tid[1] = -1; return &s; }
    }
    return 0;    // table region full: drop the event (false negatives only)
}

void report(const simtrace::Access &first, const simtrace::Access &second, uintptr_t addr) {
    for (size_t i = 0; i < found.size(); ++i) if (found[i].a.pc == first.pc && found[i].b.pc == second.pc) { ++found[i].count; return; }
    if (found.size() >= 64) return;
    simtrace::Conflict c; c.a = first; c.b = second; c.addr = addr; c.count = 1; found.push_back(c);
}

bool in_hook = false;
struct Guard { Guard() { in_hook = true; } ~Guard() { in_hook = false; } };

inline void access(uintptr_t addr, size_t size, bool write, uintptr_t pc) {
    if (!on || in_hook) return;
    Fiber *f = current(); Team *t = fiber_team(f);
    if (!t || t->size <= 1) return;
    int tid = fiber_tid(f);
    if (t->id != cur_team) { cur_team = t->id; ++region; ++n_regions; memset(idx, 0, sizeof idx); }
    uint64_t my_idx = idx[tid & 63]++;
    ++n_access;
    // directed re-run: hold this access until the other one has happened (or cannot happen while we wait)
    if (dir.active && region == dir.region) {
        if (tid == dir.until_tid && my_idx == dir.until_index) dir.released = true;
        if (tid == dir.hold_tid && my_idx == dir.hold_index && !dir.released) {
            for (int spins = 0; spins < 100000 && !dir.released; ++spins) if (!yield_to_tid(t, dir.until_tid)) { dir.gave_up = true; break; }
            if (!dir.released) dir.gave_up = true;
        }
    }
    {
        Guard guard;
        Ctx *ctx = current_ctx(); bool crit = ctx && ctx->crit_owner == f;
        uintptr_t g0 = addr >> 3, g1 = (addr + size - 1) >> 3;
        for (uintptr_t g = g0; g <= g1; ++g) {
            Shadow *s = slot(g, true); if (!s) continue;
            if (s->team != t->id || s->epoch != t->epoch) { s->team = t->id; s->epoch = t->epoch; s->w_tid = -1; s->r_tid[0] = s->r_tid[1] = -1; }
            uintptr_t lo = (g == g0) ? (addr & 7) : 0, hi = (g == g1) ? ((addr + size - 1) & 7) : 7;
            uint8_t mask = (uint8_t)(((1u << (hi - lo + 1)) - 1) << lo);
            simtrace::Access me = { region, tid, my_idx, pc, write };
            if (s->w_tid >= 0 && s->w_tid != tid && (s->w_mask & mask) && !(s->w_crit && crit)) { simtrace::Access o = { region, s->w_tid, s->w_idx, s->w_pc, true }; report(o, me, addr); }
            if (write) {
                for (int k = 0; k < 2; ++k) if (s->r_tid[k] >= 0 && s->r_tid[k] != tid && (s->r_mask[k] & mask) && !(s->r_crit[k] && crit)) { simtrace::Access o = { region, s->r_tid[k], s->r_idx[k], s->r_pc[k], false }; report(o, me, addr); }
                s->w_tid = tid; s->w_mask = mask; s->w_crit = crit; s->w_pc = pc; s->w_idx = my_idx;
            } else {
                int k = (s->r_tid[0] == tid || s->r_tid[0] < 0) ? 0 : 1;
                uint8_t old = (s->r_tid[k] == tid) ? s->r_mask[k] : 0;
                s->r_tid[k] = tid; s->r_mask[k] = old | mask; s->r_crit[k] = crit; s->r_pc[k] = pc; s->r_idx[k] = my_idx;
            }
        }
    }
    maybe_preempt();
}

} // namespace

namespace simtrace {
void enable(bool v) { if (v && !table) { table = (Shadow*)calloc(TABLE, sizeof(Shadow)); } on = v; }
void reset() { ++gen; if (gen == 0) { if (table) memset(table, 0, TABLE * sizeof(Shadow)); gen = 1; } n_access = 0; n_regions = 0; cur_team = -1; region = -1; found.clear(); dir = Directive(); }
uint64_t accesses() { return n_access; }
uint64_t regions() { return n_regions; }
const std::vector<Conflict>& conflicts() { return found; }
void set_directive(const Directive &d) { dir = d; }
Directive directive_state() { return dir; }
std::string describe(uintptr_t pc) { char b[32]; snprintf(b, sizeof b, "0x%lx", (unsigned long)pc); return b; }
void purge(void *p, size_t n) {
    if (!on || !table) return;
    Fiber *f = current(); Team *t = fiber_team(f);
    if (!t || t->size <= 1) return;            // frees outside a region are ordered by the next fork anyway
    uintptr_t a = (uintptr_t)p;
    for (uintptr_t g = a >> 3; g <= (a + (n ? n - 1 : 0)) >> 3; ++g) { Shadow *s = slot(g, false); if (s) { s->w_tid = -1; s->r_tid[0] = s->r_tid[1] = -1; } }
}
}

#define PC ((uintptr_t)__builtin_return_address(0))
extern "C" {
void __tsan_init() {}
void __tsan_func_entry(void*) {}
void __tsan_func_exit() {}
void __tsan_vptr_update(void **vptr, void *val) { (void)vptr; (void)val; }
void __tsan_vptr_read(void **vptr) { (void)vptr; }
void __tsan_read1(void *a) { access((uintptr_t)a, 1, false, PC); }
void __tsan_read2(void *a) { access((uintptr_t)a, 2, false, PC); }
void __tsan_read4(void *a) { access((uintptr_t)a, 4, false, PC); }
void __tsan_read8(void *a) { access((uintptr_t)a, 8, false, PC); }
void __tsan_read16(void *a) { access((uintptr_t)a, 16, false, PC); }
void __tsan_write1(void *a) { access((uintptr_t)a, 1, true, PC); }
void __tsan_write2(void *a) { access((uintptr_t)a, 2, true, PC); }
void __tsan_write4(void *a) { access((uintptr_t)a, 4, true, PC); }
void __tsan_write8(void *a) { access((uintptr_t)a, 8, true, PC); }
void __tsan_write16(void *a) { access((uintptr_t)a, 16, true, PC); }
void __tsan_unaligned_read2(void *a) { access((uintptr_t)a, 2, false, PC); }
void __tsan_unaligned_read4(void *a) { access((uintptr_t)a, 4, false, PC); }
void __tsan_unaligned_read8(void *a) { access((uintptr_t)a, 8, false, PC); }
void __tsan_unaligned_write2(void *a) { access((uintptr_t)a, 2, true, PC); }
void __tsan_unaligned_write4(void *a) { access((uintptr_t)a, 4, true, PC); }
void __tsan_unaligned_write8(void *a) { access((uintptr_t)a, 8, true, PC); }
void __tsan_read_range(void *a, unsigned long n) { if (n) access((uintptr_t)a, n > 64 ? 64 : n, false, PC); }
void __tsan_write_range(void *a, unsigned long n) { if (n) access((uintptr_t)a, n > 64 ? 64 : n, true, PC); }
void __tsan_read_write1(void *a) { access((uintptr_t)a, 1, true, PC); }
void __tsan_read_write2(void *a) { access((uintptr_t)a, 2, true, PC); }
void __tsan_read_write4(void *a) { access((uintptr_t)a, 4, true, PC); }
void __tsan_read_write8(void *a) { access((uintptr_t)a, 8, true, PC); }
// atomics: one OS thread, a fiber is never preempted inside these
int __tsan_atomic32_fetch_add(volatile int *a, int v, int) { int o = *a; *a = o + v; return o; }
long __tsan_atomic64_fetch_add(volatile long *a, long v, int) { long o = *a; *a = o + v; return o; }
int __tsan_atomic32_load(const volatile int *a, int) { return *a; }
long __tsan_atomic64_load(const volatile long *a, int) { return *a; }
char __tsan_atomic8_load(const volatile char *a, int) { return *a; }
void __tsan_atomic32_store(volatile int *a, int v, int) { *a = v; }
void __tsan_atomic64_store(volatile long *a, long v, int) { *a = v; }
void __tsan_atomic8_store(volatile char *a, char v, int) { *a = v; }
int __tsan_atomic32_compare_exchange_strong(volatile int *a, int *c, int v, int, int) { if (*a == *c) { *a = v; return 1; } *c = *a; return 0; }
int __tsan_atomic64_compare_exchange_strong(volatile long *a, long *c, long v, int, int) { if (*a == *c) { *a = v; return 1; } *c = *a; return 0; }
int __tsan_atomic32_exchange(volatile int *a, int v, int) { int o = *a; *a = v; return o; }
void __tsan_atomic_thread_fence(int) {}
void __tsan_atomic_signal_fence(int) {}
}
