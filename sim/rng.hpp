// Seeded randomness for the simulator: SplitMix64 streams derived from one integer.
#ifndef AMGSIM_RNG_HPP
#define AMGSIM_RNG_HPP
#include <cstdint>
#include <cstring>
#include <string>

namespace sim {

inline uint64_t mix64(uint64_t z) {
    z += 0x9e3779b97f4a7c15ULL;
    z = (z ^ (z >> 30)) * 0xbf58476d1ce4e5b9ULL;
    z = (z ^ (z >> 27)) * 0x94d049bb133111ebULL;
    return z ^ (z >> 31);
}

inline uint64_t hash_str(const char *s) {
    uint64_t h = 0xcbf29ce484222325ULL;
    for (; *s; ++s) { h ^= (unsigned char)*s; h *= 0x100000001b3ULL; }
    return h;
}

inline uint64_t hash_bytes(const void *p, size_t n, uint64_t h = 0xcbf29ce484222325ULL) {
    const unsigned char *s = (const unsigned char*)p;
    for (size_t i = 0; i < n; ++i) { h ^= s[i]; h *= 0x100000001b3ULL; }
    return h;
}

inline uint64_t hash_combine(uint64_t h, uint64_t v) {
    return mix64(h ^ mix64(v));
}

struct rng {
    uint64_t s;
    rng() : s(0) {}
    explicit rng(uint64_t seed) : s(seed) {}
    // independent stream: seed x purpose x run index
    rng(uint64_t seed, const char *stream, uint64_t run = 0)
        : s(mix64(mix64(seed) ^ hash_str(stream)) ^ mix64(run * 0x2545F4914F6CDD1DULL + 1)) {}

    uint64_t next() { s += 0x9e3779b97f4a7c15ULL; uint64_t z = s;
        z = (z ^ (z >> 30)) * 0xbf58476d1ce4e5b9ULL;
        z = (z ^ (z >> 27)) * 0x94d049bb133111ebULL;
        return z ^ (z >> 31); }
    // uniform in [0, n)
    uint64_t below(uint64_t n) { return n ? next() % n : 0; }
    // uniform in [lo, hi]
    long range(long lo, long hi) { return hi <= lo ? lo : lo + (long)below((uint64_t)(hi - lo) + 1); }
    double unit() { return (next() >> 11) * (1.0 / 9007199254740992.0); }
    bool chance(double p) { return unit() < p; }
    template <class T, size_t N> T pick(const T (&a)[N]) { return a[below(N)]; }
};

} // namespace sim
#endif
