#include "alloc.hpp"
#include <cstdlib>
#include <cstring>
#include <cstdio>
#include <new>
#if defined(AMGSIM_TRACE)
#include "trace.hpp"
#endif

namespace sim {
const char* heap_fill_name(int f) {
    static const char *n[] = { "none", "00", "ff", "aa", "snan", "random" };
    return (f >= 0 && f < NHEAPFILL) ? n[f] : "?";
}
}

#if defined(__SANITIZE_ADDRESS__)
namespace sim {
void heap_configure(const HeapConfig &) {}
HeapStats heap_stats() { return HeapStats(); }
bool heap_simulated() { return false; }
}
#else

namespace {

const uint64_t MAGIC_LIVE = 0xA110CA7EDB10C0DEULL, MAGIC_FREE = 0xDEADB10CDEADB10CULL;
struct Header { uint64_t magic; uint64_t size; void *base; Header *next; };   // 32 bytes, sits right before the user pointer

sim::HeapConfig cfg;
sim::HeapStats stats;
uint64_t rstate = 1;

// cache of freed blocks by exact size (no STL in here: we ARE operator new)
const size_t NBUCKET = 4096;
struct Bucket { uint64_t size; Header *head; Bucket *next; };
Bucket *buckets[NBUCKET];
uint64_t cached_bytes = 0;
const uint64_t CACHE_LIMIT = 256ull << 20;

Bucket* bucket_for(uint64_t size, bool create) {
    size_t h = (size * 0x9E3779B97F4A7C15ULL) >> 52;
    for (Bucket *b = buckets[h]; b; b = b->next) if (b->size == size) return b;
    if (!create) return 0;
    Bucket *b = (Bucket*)malloc(sizeof(Bucket));
    b->size = size; b->head = 0; b->next = buckets[h]; buckets[h] = b;
    return b;
}

void flush_cache() {
    for (size_t h = 0; h < NBUCKET; ++h)
        for (Bucket *b = buckets[h]; b; b = b->next) {
            while (b->head) { Header *x = b->head; b->head = x->next; free(x->base); }
        }
    cached_bytes = 0;
}

inline uint64_t rnd() { rstate += 0x9e3779b97f4a7c15ULL; uint64_t z = rstate; z = (z ^ (z >> 30)) * 0xbf58476d1ce4e5b9ULL; z = (z ^ (z >> 27)) * 0x94d049bb133111ebULL; return z ^ (z >> 31); }

void fill(void *p, size_t n) {
    switch (cfg.fill) {
        case sim::HF_NONE: break;
        case sim::HF_ZERO: memset(p, 0, n); break;
        case sim::HF_FF: memset(p, 0xFF, n); break;
        case sim::HF_AA: memset(p, 0xAA, n); break;
        case sim::HF_SNAN: {
            // signalling-NaN doubles 0x7FF4000000000000 (as char flags they are non-zero in the top bytes)
            uint64_t pat = 0x7FF4000000000001ULL; unsigned char *c = (unsigned char*)p;
            size_t i = 0; for (; i + 8 <= n; i += 8) memcpy(c + i, &pat, 8);
            for (; i < n; ++i) c[i] = 0x7F;
            break; }
        case sim::HF_RANDOM: {
            unsigned char *c = (unsigned char*)p; size_t i = 0;
            for (; i + 8 <= n; i += 8) { uint64_t v = rnd(); memcpy(c + i, &v, 8); }
            if (i < n) { uint64_t v = rnd(); memcpy(c + i, &v, n - i); }
            break; }
    }
}

void* sim_alloc(size_t size, size_t align) {
    if (size == 0) size = 1;
    ++stats.allocs; stats.bytes_total += size;
    if (cfg.recycle && align <= 16) {
        Bucket *b = bucket_for(size, false);
        if (b && b->head) {
            Header *h = b->head; b->head = h->next; cached_bytes -= size;
            h->magic = MAGIC_LIVE; h->next = 0;
            ++stats.recycled_dirty; ++stats.live_blocks; stats.live_bytes += size;
            return (void*)(h + 1);
        }
    }
    if (align < 16) align = 16;
    size_t pad = (size_t)cfg.shift * 16;
    size_t total = size + sizeof(Header) + pad + align;
    char *base = (char*)malloc(total);
    if (!base) throw std::bad_alloc();
    uintptr_t u = (uintptr_t)(base + sizeof(Header) + pad);
    u = (u + align - 1) & ~(uintptr_t)(align - 1);
    Header *h = ((Header*)u) - 1;
    h->magic = MAGIC_LIVE; h->size = size; h->base = base; h->next = 0;
    fill((void*)u, size < (16u << 20) ? size : (16u << 20));     // huge blocks: only the head is dirtied
    ++stats.live_blocks; stats.live_bytes += size;
    return (void*)u;
}

void sim_free(void *p) {
    if (!p) return;
    Header *h = ((Header*)p) - 1;
    if (h->magic != MAGIC_LIVE) { ++stats.bad_free; return; }   // double free or foreign pointer: recorded, not executed
    --stats.live_blocks; stats.live_bytes -= h->size;
#if defined(AMGSIM_TRACE)
    simtrace::purge(p, h->size);         // free -> reuse of the block is a happens-before edge
#endif
    h->magic = MAGIC_FREE;
    if (cfg.recycle && cached_bytes + h->size < CACHE_LIMIT && (((uintptr_t)p) & 15) == 0) {
        Bucket *b = bucket_for(h->size, true);
        h->next = b->head; b->head = h; cached_bytes += h->size;
        return;
    }
    free(h->base);
}

} // namespace

namespace sim {
void heap_configure(const HeapConfig &c) {
    flush_cache();
    cfg = c; rstate = c.seed * 0x9E3779B97F4A7C15ULL + 12345;
    stats.recycled_dirty = 0; stats.bad_free = 0; stats.allocs = 0; stats.bytes_total = 0;
}
HeapStats heap_stats() { return stats; }
bool heap_simulated() { return true; }
}

void* operator new(size_t n) { return sim_alloc(n, 16); }
void* operator new[](size_t n) { return sim_alloc(n, 16); }
void* operator new(size_t n, const std::nothrow_t&) noexcept { try { return sim_alloc(n, 16); } catch (...) { return 0; } }
void* operator new[](size_t n, const std::nothrow_t&) noexcept { try { return sim_alloc(n, 16); } catch (...) { return 0; } }
void* operator new(size_t n, std::align_val_t a) { return sim_alloc(n, (size_t)a); }
void* operator new[](size_t n, std::align_val_t a) { return sim_alloc(n, (size_t)a); }
void operator delete(void *p) noexcept { sim_free(p); }
void operator delete[](void *p) noexcept { sim_free(p); }
void operator delete(void *p, size_t) noexcept { sim_free(p); }
void operator delete[](void *p, size_t) noexcept { sim_free(p); }
void operator delete(void *p, std::align_val_t) noexcept { sim_free(p); }
void operator delete[](void *p, std::align_val_t) noexcept { sim_free(p); }
void operator delete(void *p, size_t, std::align_val_t) noexcept { sim_free(p); }
void operator delete[](void *p, size_t, std::align_val_t) noexcept { sim_free(p); }
void operator delete(void *p, const std::nothrow_t&) noexcept { sim_free(p); }
void operator delete[](void *p, const std::nothrow_t&) noexcept { sim_free(p); }

#endif
