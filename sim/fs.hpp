// Simulated disk: a file is a byte vector; it is handed to the library as a /proc/self/fd/<memfd> path
// (seekable, nothing touches the real disk).  Faults are explicit ops on the image.
#ifndef AMGSIM_FS_HPP
#define AMGSIM_FS_HPP
#include <string>
#include <vector>
#include <cstdio>
#include <cstring>
#include <stdexcept>
#include <unistd.h>
#include <fcntl.h>
#include <sys/mman.h>
#include <sys/stat.h>

namespace simfs {

typedef std::vector<unsigned char> bytes;

struct MemFile {
    int fd; std::string path;
    explicit MemFile(const bytes &b = bytes()) : fd(-1) {
        fd = memfd_create("amgsim", 0);
        if (fd < 0) throw std::runtime_error("memfd_create failed");
        char buf[64]; snprintf(buf, sizeof buf, "/proc/self/fd/%d", fd); path = buf;
        set(b);
    }
    ~MemFile() { if (fd >= 0) close(fd); }
    MemFile(const MemFile&) = delete; MemFile& operator=(const MemFile&) = delete;
    void set(const bytes &b) {
        if (ftruncate(fd, 0) != 0) throw std::runtime_error("ftruncate failed");
        size_t off = 0;
        while (off < b.size()) { ssize_t w = pwrite(fd, b.data() + off, b.size() - off, (off_t)off); if (w <= 0) throw std::runtime_error("pwrite failed"); off += (size_t)w; }
    }
    bytes get() const {
        struct stat st; if (fstat(fd, &st) != 0) throw std::runtime_error("fstat failed");
        bytes b((size_t)st.st_size); size_t off = 0;
        while (off < b.size()) { ssize_t r = pread(fd, b.data() + off, b.size() - off, (off_t)off); if (r <= 0) throw std::runtime_error("pread failed"); off += (size_t)r; }
        return b;
    }
};

// line start offsets of a text image
inline std::vector<size_t> line_starts(const bytes &b) {
    std::vector<size_t> s; if (!b.empty()) s.push_back(0);
    for (size_t i = 0; i + 1 < b.size(); ++i) if (b[i] == '\n') s.push_back(i + 1);
    return s;
}

// fault ops --------------------------------------------------------------------------------
inline void truncate(bytes &b, size_t k) { if (k < b.size()) b.resize(k); }                       // crash of the writer / full disk / torn tail
inline void flip(bytes &b, size_t k, unsigned mask) { if (k < b.size()) b[k] ^= (unsigned char)(mask ? mask : 1); }
inline void set_byte(bytes &b, size_t k, unsigned v) { if (k < b.size()) b[k] = (unsigned char)v; }
inline void zero_tail(bytes &b, size_t k) { for (size_t i = k; i < b.size(); ++i) b[i] = 0; }     // lost write: size right, tail zeros
inline void drop_line(bytes &b, size_t i) {
    std::vector<size_t> s = line_starts(b); if (i >= s.size()) return;
    size_t beg = s[i], end = (i + 1 < s.size()) ? s[i + 1] : b.size();
    b.erase(b.begin() + beg, b.begin() + end);
}
inline void dup_line(bytes &b, size_t i) {
    std::vector<size_t> s = line_starts(b); if (i >= s.size()) return;
    size_t beg = s[i], end = (i + 1 < s.size()) ? s[i + 1] : b.size();
    bytes l(b.begin() + beg, b.begin() + end);
    if (l.empty() || l.back() != '\n') l.push_back('\n');
    b.insert(b.begin() + beg, l.begin(), l.end());
}

} // namespace simfs
#endif
