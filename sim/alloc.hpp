// Simulated heap: replacement global operator new/delete with seeded fill, recycling and address policies.
#ifndef AMGSIM_ALLOC_HPP
#define AMGSIM_ALLOC_HPP
#include <cstdint>
#include <cstddef>
namespace sim {
enum HeapFill { HF_NONE = 0, HF_ZERO = 1, HF_FF = 2, HF_AA = 3, HF_SNAN = 4, HF_RANDOM = 5, NHEAPFILL = 6 };
struct HeapConfig {
    int fill = HF_NONE;        // content of every fresh block
    int recycle = 0;           // 1: a freed block of the same size comes back with its stale content (LIFO)
    int shift = 0;             // extra leading pad in 16-byte units: moves addresses between runs
    uint64_t seed = 0;         // for HF_RANDOM
};
struct HeapStats {
    uint64_t live_blocks = 0, live_bytes = 0, allocs = 0, recycled_dirty = 0, bad_free = 0, bytes_total = 0;
};
void heap_configure(const HeapConfig &c);
HeapStats heap_stats();
const char* heap_fill_name(int f);
bool heap_simulated();      // false in the ASan flavour (ASan owns the allocator; fills come from ASAN_OPTIONS)
}
#endif
