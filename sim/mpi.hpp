// Simulated MPI world: ranks are fibers of one process (sim/sched), every message, request and collective is an
// object of the simulator.  Only behaviour a conforming MPI library may show is injected.
#ifndef AMGSIM_MPI_HPP
#define AMGSIM_MPI_HPP
#include <functional>
#include <string>
#include <vector>
#include <map>
#include <cstdint>
#include "sched.hpp"

namespace simmpi {

struct Config {
    int ranks = 1;
    int nt = 1;                   // OpenMP threads per rank
    bool late_send_read = false;  // Isend buffers are read at a seeded later MPI call of the sender (at the latest when it blocks / waits)
    bool recv_poison = false;     // Irecv buffers hold a NaN / 0xA5 pattern until the receiver waits for them
    bool rendezvous = false;      // blocking MPI_Send returns only after the matching receive was posted
    uint64_t seed = 0;
};

struct Stats {
    uint64_t messages = 0, bytes = 0, collectives = 0, late_reads = 0, late_read_changed_payload = 0, recv_poisoned = 0, rendezvous_sends = 0, eager_sends = 0, comm_splits = 0, mpi_calls = 0;
};

struct Outcome {
    sim::RunStatus sched;
    Stats stats;
    std::vector<std::string> rank_exception;   // per rank: "" or what()
};

// runs rank_main(rank) on `ranks` fibers inside one simulated world
Outcome run(const Config &cfg, const sim::SchedConfig &sched, const std::function<void(int)> &rank_main);

int world_rank();      // rank of the calling fiber (valid inside run)

} // namespace simmpi
#endif
