# amgsim build: every check binary is compiled against /repo's current working tree (-MMD dependencies on
# /repo/amgcl/**) with -fopenmp and linked WITHOUT libgomp: sim/gomp.cpp is the OpenMP runtime.
REPO ?= /repo
B    ?= build
CXX  := g++
COMMON := -std=c++17 -I$(REPO) -I/usr/include/eigen3 -I. -fopenmp -MMD -MP -DEIGEN_DONT_PARALLELIZE -DAMGCL_VERIF_SIM \
          -Wno-deprecated-declarations -Wno-unused-result
PLAIN_FLAGS := -O2 -g1 $(COMMON)
ASAN_FLAGS  := -O1 -g1 -fsanitize=address,undefined -fno-sanitize-recover=undefined -fno-omit-frame-pointer $(COMMON)
TRACE_FLAGS := -O1 -g1 -fsanitize=thread $(COMMON) -DAMGSIM_TRACE

SIM_SRC   := sim/sched.cpp sim/gomp.cpp sim/alloc.cpp
HAVE = $(foreach c,$(1),$(if $(wildcard checks/$(c).cpp),$(c)))
PLAIN_CHECKS := $(call HAVE,c09 c08 c07 c06 c10 c15 c03 c02 c01 c19)
ASAN_CHECKS  := $(call HAVE,c10 c19)
TRACE_CHECKS := $(call HAVE,c09t)
MPI_CHECKS   := $(call HAVE,c11 c12)
ASAN_MPI_CHECKS := $(call HAVE,c11 c12)

PLAIN_SIM := $(patsubst sim/%.cpp,$(B)/plain/sim_%.o,$(SIM_SRC))
ASAN_SIM  := $(patsubst sim/%.cpp,$(B)/asan/sim_%.o,$(SIM_SRC))
TRACE_SIM := $(patsubst sim/%.cpp,$(B)/trace/sim_%.o,$(SIM_SRC)) $(B)/trace/sim_trace.o

.PHONY: all plain asan trace mpi clean
all: plain asan trace mpi
plain: $(addprefix $(B)/plain/,$(PLAIN_CHECKS))
asan:  $(addprefix $(B)/asan/,$(ASAN_CHECKS)) $(addprefix $(B)/asan/,$(ASAN_MPI_CHECKS))
trace: $(addprefix $(B)/trace/,$(TRACE_CHECKS))
mpi:   $(addprefix $(B)/plain/,$(MPI_CHECKS))

$(B)/plain/sim_%.o: sim/%.cpp | $(B)/plain
	$(CXX) -O2 -g1 -std=c++17 -MMD -MP -c $< -o $@
$(B)/asan/sim_%.o: sim/%.cpp | $(B)/asan
	$(CXX) -O1 -g1 -std=c++17 -fsanitize=address,undefined -fno-omit-frame-pointer -MMD -MP -c $< -o $@
$(B)/trace/sim_%.o: sim/%.cpp | $(B)/trace
	$(CXX) -O2 -g1 -std=c++17 -MMD -MP -DAMGSIM_TRACE -c $< -o $@

$(B)/plain/%.o: checks/%.cpp | $(B)/plain
	$(CXX) $(PLAIN_FLAGS) -c $< -o $@
$(B)/asan/%.o: checks/%.cpp | $(B)/asan
	$(CXX) $(ASAN_FLAGS) -c $< -o $@
$(B)/trace/%.o: checks/%.cpp | $(B)/trace
	$(CXX) $(TRACE_FLAGS) -c $< -o $@

# MPI checks see sim/mpi_include/mpi.h instead of the system mpi.h and link the simulated MPI runtime
$(B)/plain/c11.o $(B)/plain/c12.o $(B)/plain/c12_blockval.o: PLAIN_FLAGS += -Isim/mpi_include
$(B)/asan/c11.o $(B)/asan/c12.o $(B)/asan/c12_blockval.o: ASAN_FLAGS += -Isim/mpi_include -fno-sanitize=null
$(B)/asan/c11: $(B)/asan/c11.o $(ASAN_SIM) $(B)/asan/sim_mpi.o
	$(CXX) -fsanitize=address,undefined $^ -o $@
$(B)/asan/c12: $(B)/asan/c12.o $(B)/asan/c12_blockval.o $(ASAN_SIM) $(B)/asan/sim_mpi.o
	$(CXX) -fsanitize=address,undefined $^ -o $@
$(B)/plain/c11: $(B)/plain/c11.o $(PLAIN_SIM) $(B)/plain/sim_mpi.o
	$(CXX) -no-pie $^ -o $@
$(B)/plain/c12: $(B)/plain/c12.o $(B)/plain/c12_blockval.o $(PLAIN_SIM) $(B)/plain/sim_mpi.o
	$(CXX) -no-pie $^ -o $@

# C10 is two translation units (real valued worlds; block / complex valued worlds)
$(B)/plain/c10: $(B)/plain/c10.o $(B)/plain/c10_valued.o $(PLAIN_SIM)
	$(CXX) -no-pie $^ -o $@
$(B)/asan/c10: $(B)/asan/c10.o $(B)/asan/c10_valued.o $(ASAN_SIM)
	$(CXX) -fsanitize=address,undefined $^ -o $@

$(B)/plain/%: $(B)/plain/%.o $(PLAIN_SIM)
	$(CXX) -no-pie $^ -o $@
$(B)/asan/%: $(B)/asan/%.o $(ASAN_SIM)
	$(CXX) -fsanitize=address,undefined $^ -o $@
# the simulator objects come FIRST: for template instantiations shared with the (instrumented) check the linker keeps
# the first COMDAT copy, and the scheduler / detector must never run instrumented code (re-entrancy)
$(B)/trace/%: $(B)/trace/%.o $(TRACE_SIM)
	$(CXX) -no-pie $(TRACE_SIM) $< -o $@

$(B)/plain $(B)/asan $(B)/trace:
	mkdir -p $@

clean:
	rm -rf $(B)

.SECONDARY:
-include $(wildcard $(B)/*/*.d)
