// World generator: matrix families (functions of a handful of integers), right-hand sides, digests.
#ifndef AMGSIM_GEN_MATRICES_HPP
#define AMGSIM_GEN_MATRICES_HPP
#include <vector>
#include <map>
#include <algorithm>
#include <cstddef>
#include <cstdint>
#include <cmath>
#include <cstring>
#include <tuple>
#include "../sim/rng.hpp"

namespace gen {

struct Csr {
    long n = 0, m = 0;
    std::vector<ptrdiff_t> ptr, col;
    std::vector<double> val;
    size_t nnz() const { return col.size(); }
    std::tuple<long, std::vector<ptrdiff_t>&, std::vector<ptrdiff_t>&, std::vector<double>&> tie() {
        return std::tuple<long, std::vector<ptrdiff_t>&, std::vector<ptrdiff_t>&, std::vector<double>&>(n, ptr, col, val);
    }
};

// assemble from (row -> col -> value) maps; sorted rows
struct Builder {
    long n, m;
    std::vector<std::map<long,double> > rows;
    Builder(long n, long m) : n(n), m(m), rows(n) {}
    void add(long i, long j, double v) { rows[i][j] += v; }
    void set(long i, long j, double v) { rows[i][j] = v; }
    Csr finish(bool drop_zeros = false) const {
        Csr A; A.n = n; A.m = m; A.ptr.push_back(0);
        for (long i = 0; i < n; ++i) {
            for (std::map<long,double>::const_iterator it = rows[i].begin(); it != rows[i].end(); ++it) {
                if (drop_zeros && it->second == 0) continue;
                A.col.push_back(it->first); A.val.push_back(it->second);
            }
            A.ptr.push_back((ptrdiff_t)A.col.size());
        }
        return A;
    }
};

enum Family {
    F_GRID2D = 0,        // 5-point diffusion, cell coefficients with contrast, anisotropy; Dirichlet-eliminated (SPD M-matrix, irreducibly dominant)
    F_GRID1D = 1,
    F_GRID3D = 2,
    F_GRAPH  = 3,        // SPD M-matrix on a random connected graph with dominance margin
    F_CONVDIFF = 4,      // nonsymmetric values, symmetric pattern
    F_NONSYM_PATTERN = 5,// structurally non-symmetric: off-diagonals of a graph matrix dropped one-sidedly
    F_DISCONNECTED = 6,  // two or more components
    F_DIAGONAL = 7,
    F_POSITIVE_OFFDIAG = 8, // some rows have only positive off-diagonal entries
    F_GRID2D_DIRROWS = 9,   // like the suite's sample problem: boundary rows are identity rows (no negative off-diagonal)
    NFAMILY = 10
};
inline const char* family_name(int f) {
    static const char *n[] = {"grid2d","grid1d","grid3d","graph","convdiff","nonsym_pattern","disconnected","diagonal","positive_offdiag","grid2d_dirrows"};
    return (f >= 0 && f < NFAMILY) ? n[f] : "?";
}

// dyadic rationals so that sums are as exact as possible: k / 16
inline double dyadic(sim::rng &r, int lo16, int hi16) { return (double)r.range(lo16, hi16) / 16.0; }

// n is a target size; the actual size is returned in A.n (grids round to nx*ny)
inline Csr make_matrix(int family, long n, uint64_t mseed, int contrast_exp = 0, int aniso = 1, int integer_valued = 0) {
    sim::rng r(mseed, "matrix");
    if (n < 1) n = 1;
    switch (family) {
    case F_GRID1D: {
        Builder b(n, n);
        std::vector<double> k(n + 1);
        for (long i = 0; i <= n; ++i) k[i] = integer_valued ? (double)r.range(1, 3) : std::ldexp(1.0, (int)r.range(0, contrast_exp * 3));
        for (long i = 0; i < n; ++i) {
            b.add(i, i, k[i] + k[i+1]);
            if (i > 0) b.add(i, i-1, -k[i]);
            if (i + 1 < n) b.add(i, i+1, -k[i+1]);
        }
        return b.finish();
    }
    case F_GRID2D: case F_GRID2D_DIRROWS: {
        long nx = std::max<long>(1, (long)std::floor(std::sqrt((double)n)));
        long ny = std::max<long>(1, n / nx);
        long N = nx * ny;
        Builder b(N, N);
        // edge coefficients from cell-ish random field; x-edges scaled by aniso
        for (long j = 0; j < ny; ++j) for (long i = 0; i < nx; ++i) {
            long id = j * nx + i;
            bool bnd = (i == 0 || j == 0 || i == nx - 1 || j == ny - 1);
            if (family == F_GRID2D_DIRROWS && bnd && N > 1) { b.add(id, id, 1.0); continue; }
            double kx0 = aniso * (integer_valued ? (double)r.range(1, 2) : std::ldexp(1.0, (int)r.range(0, contrast_exp * 3)));
            double ky0 = (integer_valued ? (double)r.range(1, 2) : std::ldexp(1.0, (int)r.range(0, contrast_exp * 3)));
            (void)kx0; (void)ky0;
        }
        if (family == F_GRID2D_DIRROWS) {
            // interior rows: standard 5-point, coupling to boundary rows kept (like tests/sample_problem.hpp)
            for (long j = 0; j < ny; ++j) for (long i = 0; i < nx; ++i) {
                long id = j * nx + i;
                bool bnd = (i == 0 || j == 0 || i == nx - 1 || j == ny - 1);
                if (bnd && N > 1) continue;
                if (N == 1) { b.add(id, id, 4.0); continue; }
                b.add(id, id, 4.0);
                b.add(id, id - 1, -1.0); b.add(id, id + 1, -1.0); b.add(id, id - nx, -1.0); b.add(id, id + nx, -1.0);
            }
            return b.finish();
        }
        // symmetric edge weights
        sim::rng re(mseed, "edges");
        for (long j = 0; j < ny; ++j) for (long i = 0; i < nx; ++i) {
            long id = j * nx + i;
            // Dirichlet-eliminated boundary: every boundary edge adds to the diagonal only
            double wl = aniso * 1.0, wd = 1.0;
            if (i + 1 < nx) { double w = aniso * (integer_valued ? (double)re.range(1, 2) : std::ldexp(1.0, (int)re.range(0, contrast_exp * 3)));
                b.add(id, id, w); b.add(id + 1, id + 1, w); b.add(id, id + 1, -w); b.add(id + 1, id, -w); }
            if (j + 1 < ny) { double w = (integer_valued ? (double)re.range(1, 2) : std::ldexp(1.0, (int)re.range(0, contrast_exp * 3)));
                b.add(id, id, w); b.add(id + nx, id + nx, w); b.add(id, id + nx, -w); b.add(id + nx, id, -w); }
            if (i == 0) b.add(id, id, wl); if (i == nx - 1) b.add(id, id, wl);
            if (j == 0) b.add(id, id, wd); if (j == ny - 1) b.add(id, id, wd);
        }
        return b.finish();
    }
    case F_GRID3D: {
        long nx = std::max<long>(1, (long)std::floor(std::cbrt((double)n) + 1e-9));
        long N = nx * nx * nx;
        Builder b(N, N);
        for (long k = 0; k < nx; ++k) for (long j = 0; j < nx; ++j) for (long i = 0; i < nx; ++i) {
            long id = (k * nx + j) * nx + i;
            long nb[3] = { i + 1 < nx ? id + 1 : -1, j + 1 < nx ? id + nx : -1, k + 1 < nx ? id + nx * nx : -1 };
            for (int d = 0; d < 3; ++d) if (nb[d] >= 0) {
                double w = (d == 0 ? aniso : 1) * (integer_valued ? 1.0 : std::ldexp(1.0, (int)r.range(0, contrast_exp * 3)));
                b.add(id, id, w); b.add(nb[d], nb[d], w); b.add(id, nb[d], -w); b.add(nb[d], id, -w);
            }
            int nbnd = (i == 0) + (i == nx - 1) + (j == 0) + (j == nx - 1) + (k == 0) + (k == nx - 1);
            b.add(id, id, (double)nbnd);
        }
        return b.finish();
    }
    case F_GRAPH: case F_NONSYM_PATTERN: case F_CONVDIFF: case F_DISCONNECTED: case F_POSITIVE_OFFDIAG: {
        Builder b(n, n);
        std::vector<double> diag(n, 0.0);
        long ncomp = (family == F_DISCONNECTED) ? std::min<long>(n, 2 + (long)r.below(3)) : 1;
        // spanning structure (connected inside each component) + extra edges
        std::vector<std::pair<long,long> > edges;
        for (long i = 0; i < n; ++i) {
            long comp = i % ncomp;
            // connect to an earlier vertex of the same component
            std::vector<long> earlier;
            for (long q = comp; q < i; q += ncomp) earlier.push_back(q);
            if (!earlier.empty()) edges.push_back(std::make_pair(earlier[r.below(earlier.size())], i));
        }
        long extra = (long)r.below((uint64_t)(n + 1));
        for (long e = 0; e < extra && n > 1; ++e) {
            long a = (long)r.below(n), c = (long)r.below(n);
            if (a == c || (a % ncomp) != (c % ncomp)) continue;
            edges.push_back(std::make_pair(std::min(a, c), std::max(a, c)));
        }
        for (size_t e = 0; e < edges.size(); ++e) {
            long a = edges[e].first, c = edges[e].second;
            if (b.rows[a].count(c)) continue;
            double w = integer_valued ? (double)r.range(1, 3) : dyadic(r, 4, 64) * std::ldexp(1.0, (int)r.range(0, contrast_exp));
            double wa = w, wc = w;
            if (family == F_CONVDIFF) { double s = dyadic(r, -8, 8) / 2; wa = w * (1 + s / 2); wc = w * (1 - s / 2); }
            bool positive = (family == F_POSITIVE_OFFDIAG) && r.chance(0.4);
            if (positive) { wa = -wa / 4; wc = -wc / 4; }     // positive off-diagonal entries (stored as -w)
            int side = 2;
            if (family == F_NONSYM_PATTERN) side = (int)r.below(4);   // 0: only (a,c), 1: only (c,a), 2,3: both
            if (side != 1) { b.set(a, c, -wa); diag[a] += std::fabs(wa); }
            if (side != 0) { b.set(c, a, -wc); diag[c] += std::fabs(wc); }
        }
        for (long i = 0; i < n; ++i) {
            double margin = integer_valued ? (double)r.range(1, 2) : dyadic(r, 1, 32);
            b.set(i, i, diag[i] + margin);
        }
        return b.finish();
    }
    case F_DIAGONAL: {
        Builder b(n, n);
        for (long i = 0; i < n; ++i) b.set(i, i, integer_valued ? (double)r.range(1, 4) : dyadic(r, 8, 64));
        return b.finish();
    }
    }
    return Csr();
}

// rectangular random sparse matrix for the kernel checks; integer entries in -4..4 (never 0), rows may be empty,
// rows may be unsorted on request
inline Csr make_rect(long n, long m, uint64_t mseed, int density_pct, bool integer_vals, bool unsorted, bool allow_empty_rows = true) {
    sim::rng r(mseed, "rect");
    Csr A; A.n = n; A.m = m; A.ptr.push_back(0);
    for (long i = 0; i < n; ++i) {
        bool empty = allow_empty_rows && r.chance(0.1);
        std::vector<std::pair<long,double> > row;
        if (!empty && m > 0) for (long j = 0; j < m; ++j) if (r.below(100) < (uint64_t)density_pct) {
            double v;
            if (integer_vals) { v = (double)r.range(1, 4); if (r.chance(0.5)) v = -v; }
            else v = (r.unit() - 0.5) * 4;
            row.push_back(std::make_pair(j, v));
        }
        if (unsorted) for (size_t k = row.size(); k > 1; --k) std::swap(row[k-1], row[r.below(k)]);
        for (size_t k = 0; k < row.size(); ++k) { A.col.push_back(row[k].first); A.val.push_back(row[k].second); }
        A.ptr.push_back((ptrdiff_t)A.col.size());
    }
    return A;
}

inline std::vector<double> make_vector(long n, uint64_t vseed, int kind = 0) {
    sim::rng r(vseed, "vector");
    std::vector<double> v(n);
    for (long i = 0; i < n; ++i) {
        switch (kind) {
            case 0: v[i] = r.unit() * 2 - 1; break;
            case 1: v[i] = (double)r.range(-8, 8); break;      // small integers
            case 2: v[i] = 1.0; break;
            default: v[i] = r.unit(); break;
        }
    }
    return v;
}

inline std::vector<double> dense(const Csr &A) {
    std::vector<double> D((size_t)A.n * A.m, 0.0);
    for (long i = 0; i < A.n; ++i) for (ptrdiff_t j = A.ptr[i]; j < A.ptr[i+1]; ++j) D[(size_t)i * A.m + A.col[j]] += A.val[j];
    return D;
}

inline bool pattern_symmetric(const Csr &A) {
    if (A.n != A.m) return false;
    std::vector<std::map<long,char> > s(A.n);
    for (long i = 0; i < A.n; ++i) for (ptrdiff_t j = A.ptr[i]; j < A.ptr[i+1]; ++j) s[i][A.col[j]] = 1;
    for (long i = 0; i < A.n; ++i) for (ptrdiff_t j = A.ptr[i]; j < A.ptr[i+1]; ++j) if (!s[A.col[j]].count(i)) return false;
    return true;
}

inline uint64_t digest(const Csr &A) {
    uint64_t h = sim::hash_combine(A.n, A.m);
    h = sim::hash_bytes(A.ptr.data(), A.ptr.size() * sizeof(ptrdiff_t), h);
    h = sim::hash_bytes(A.col.data(), A.col.size() * sizeof(ptrdiff_t), h);
    h = sim::hash_bytes(A.val.data(), A.val.size() * sizeof(double), h);
    return h;
}
inline uint64_t pattern_digest(const Csr &A) {
    uint64_t h = sim::hash_combine(A.n, A.m);
    h = sim::hash_bytes(A.ptr.data(), A.ptr.size() * sizeof(ptrdiff_t), h);
    h = sim::hash_bytes(A.col.data(), A.col.size() * sizeof(ptrdiff_t), h);
    return h;
}
template <class T> inline uint64_t digest(const std::vector<T> &v, uint64_t h = 0x9e3779b9ULL) {
    return sim::hash_bytes(v.data(), v.size() * sizeof(T), h);
}

} // namespace gen
#endif
