#!/usr/bin/env python3
"""Determinism proof: every run index of every check is executed in different processes, with different worker
strides (1, 4, 16 processes), with ASLR on; the per-run (key, event-log hash) lines must be identical.
usage: determinism.py [N=300] [seed=7] [checks...]"""
import sys, os, subprocess, json
ROOT = os.path.dirname(os.path.dirname(os.path.abspath(__file__)))
BINS = {"C09": ["plain/c09", "trace/c09t"], "C08": ["plain/c08"], "C07": ["plain/c07"], "C06": ["plain/c06"], "C10": ["plain/c10"], "C15": ["plain/c15"],
        "C03": ["plain/c03"], "C02": ["plain/c02"], "C01": ["plain/c01"], "C11": ["plain/c11"], "C12": ["plain/c12"], "C19": ["plain/c19"]}

def run(exe, seed, frm, stride, count):
    out = {}
    end = frm + stride * count
    while frm < end:
        p = subprocess.run([exe, "--seed", str(seed), "--from", str(frm), "--stride", str(stride), "--count", str((end - frm + stride - 1) // stride), "--no-shrink", "--replay-dir", "/tmp",
                            "--known", os.path.join(ROOT, "known_findings.json")], stdout=subprocess.PIPE, stderr=subprocess.DEVNULL, cwd=ROOT)
        last = None
        for line in p.stdout.decode("utf-8", "replace").splitlines():
            if line.startswith("r "):
                parts = line.split(); out[int(parts[1])] = (parts[2], parts[3], parts[4])
            elif line.startswith("b "):
                last = int(line[2:])
        if p.returncode == 3 and last is not None:      # an abandoned world (recorded deadlock finding): the worker asks to be restarted
            frm = last + stride; continue
        break
    return out

def main():
    n = int(sys.argv[1]) if len(sys.argv) > 1 else 300
    seed = int(sys.argv[2]) if len(sys.argv) > 2 else 7
    checks = sys.argv[3:] or sorted(BINS)
    report = {}; bad = 0
    for c in checks:
        for b in BINS[c]:
            exe = os.path.join(ROOT, "build", b)
            if not os.path.exists(exe): continue
            ref = run(exe, seed, 0, 1, n)
            mism = 0; compared = 0
            for stride in (4, 16):
                procs = []
                for w in range(stride):
                    cnt = (n - w + stride - 1) // stride
                    procs.append(run(exe, seed, w, stride, cnt))
                for pr in procs:
                    for idx, v in pr.items():
                        compared += 1
                        if ref.get(idx) != v: mism += 1
            report[b] = {"runs": len(ref), "compared_replicas": compared, "mismatches": mism}
            bad += mism
            print(b, report[b], flush=True)
    json.dump({"seed": seed, "runs_per_check": n, "strides": [1, 4, 16], "aslr": open("/proc/sys/kernel/randomize_va_space").read().strip(), "result": report},
              open(os.path.join(ROOT, "determinism.json"), "w"), indent=1)
    return 1 if bad else 0
if __name__ == "__main__":
    sys.exit(main())
