#!/bin/bash
# usage: confirm_mutation2.sh <scratch worktree with _out/patch.diff + _out/demo.cpp> [jobs]
# Confirms, in that scratch worktree of /repo's HEAD: the demo passes without the patch and fails with it; the repository's
# test suite (built in <worktree>/_build) passes with the patch.  Writes <worktree>/_out/confirm.log and prints a verdict line.
WT="$1"; J="${2:-6}"; O="$WT/_out"
cd "$WT" || exit 2
exec 3>&1
exec > "$O/confirm.log" 2>&1
set -x
export OMP_WAIT_POLICY=passive
git -C "$WT" checkout -q -- amgcl lib 2>/dev/null
git -C "$WT" status --short | grep -v '^??'
CMD=$(head -5 "$O/demo.cpp" | grep -m1 -E '^// *(g\+\+|mpic\+\+)' | sed 's#^// *##')
[ -n "$CMD" ] || { echo "NO-COMMAND-LINE"; echo "VERDICT $WT no-command" >&3; exit 3; }
run_demo() { (cd "$O" && rm -f demo && timeout 1800 bash -c "$CMD"); echo "DEMO-RC $1 $?"; }
run_demo pristine; RC0=$(tail -1 "$O/confirm.log" | awk '{print $3}')
git apply "$O/patch.diff" || { echo "PATCH-FAILED"; echo "VERDICT $WT patch-failed" >&3; exit 3; }
run_demo patched;
[ -f $WT/_build/build.ninja ] || cmake -G Ninja -S $WT -B $WT/_build -DAMGCL_BUILD_TESTS=ON -DCMAKE_BUILD_TYPE=RelWithDebInfo -DCMAKE_CXX_FLAGS=-Wno-error >/dev/null
cmake --build $WT/_build -j$J 2>&1 | tail -3
ctest --test-dir $WT/_build -j4 --timeout 1800 2>&1 | tail -20
set +x
P=$(grep -c "^DEMO-RC pristine 0" "$O/confirm.log"); M=$(grep "^DEMO-RC patched" "$O/confirm.log" | awk '{print $3}'); T=$(grep -c "100% tests passed" "$O/confirm.log")
rm -f "$O/demo"
echo "VERDICT $WT pristine_ok=$P patched_rc=$M suite_pass=$T" >&3
