#!/bin/bash
# usage: confirm_mutation.sh <dir with patch.diff + demo.cpp> -- confirms in the scratch worktree /tmp/vt (pinned snapshot):
#   demo passes without the patch and fails with it; the pinned suite passes with the patch.  Writes <dir>/confirm.log
D="$1"; WT=/tmp/vt
[ -d $WT ] || git -C /repo worktree add --detach $WT 99cda12 >/dev/null 2>&1
cd $WT && git checkout -q -- . 
exec > "$D/confirm.log" 2>&1
set -x
export OMP_WAIT_POLICY=passive
NT=$(grep -m1 -o "OMP_NUM_THREADS=[0-9]*" "$D/demo.cpp" | cut -d= -f2); NT=${NT:-4}
NP=$(grep -m1 -o "\-np [0-9]*" "$D/demo.cpp" | cut -d' ' -f2); NP=${NP:-4}
run_demo() {  # $1 = label
  if grep -q "mpic++" "$D/demo.cpp"; then
    (cd "$D" && rm -f demo && mpic++ -O2 -fopenmp -I$WT -I/usr/include/eigen3 demo.cpp -o demo) || { echo "DEMO-COMPILE-FAILED $1"; return 9; }
    (cd "$D" && OMP_NUM_THREADS=1 timeout 900 mpirun --oversubscribe --allow-run-as-root -np $NP ./demo); echo "DEMO-RC $1 $?"
  else
    (cd "$D" && rm -f demo && g++ -O2 -fopenmp -I$WT -I/usr/include/eigen3 demo.cpp -o demo) || { echo "DEMO-COMPILE-FAILED $1"; return 9; }
    (cd "$D" && OMP_NUM_THREADS=$NT timeout 600 ./demo); echo "DEMO-RC $1 $?"
  fi
}
run_demo pristine
git apply "$D/patch.diff" || { echo "PATCH-FAILED"; exit 3; }
run_demo patched
if [ ! -f $WT/_build/build.ninja ]; then cmake -G Ninja -S $WT -B $WT/_build -DAMGCL_BUILD_TESTS=ON -DCMAKE_BUILD_TYPE=RelWithDebInfo -DCMAKE_CXX_FLAGS=-Wno-error >/dev/null; fi
cmake --build $WT/_build -j12 2>&1 | tail -3
ctest --test-dir $WT/_build -j6 --timeout 1800 2>&1 | tail -20
git checkout -q -- .
rm -f "$D/demo"
