#!/usr/bin/env python3
"""Prepares one wave of independent seeded-change requests (development tool, not a registered check).
For every claimed property: a scratch git worktree of /repo HEAD under /tmp/mut/<id>-<wave>, _out/property.json (the
property text only) and _out/prompt.txt (tools/mutation_prompt.tmpl + the list of earlier seeded changes of that property,
so that the sub-agent picks a different mechanism).  Nothing from /verif other than the property text and that list is
handed over.  usage: prep_mutation_wave.py <wave, e.g. m8> [ids...]"""
import sys, os, json, glob, subprocess
ROOT = os.path.dirname(os.path.dirname(os.path.abspath(__file__)))
CLAIMED = ["C01", "C02", "C03", "C06", "C07", "C08", "C09", "C10", "C11", "C12", "C15", "C19"]
wave = sys.argv[1]; ids = sys.argv[2:] or CLAIMED
props = {json.loads(l)["id"]: json.loads(l) for l in open(os.path.join(ROOT, "properties.jsonl"))}
tmpl = open(os.path.join(ROOT, "tools", "mutation_prompt.tmpl")).read()
extra = ("\nSeveral rounds have already been collected (the list above). Please find something genuinely different: another clause of the "
         "property statement, another file among the anchors (or a helper they depend on), another kind of trigger. Re-read the statement "
         "sentence by sentence and pick a clause that none of the earlier changes touches, if there is one.\n")
for pid in ids:
    wt = "/tmp/mut/%s-%s" % (pid, wave)
    if not os.path.exists(wt):
        subprocess.check_call(["git", "-C", "/repo", "worktree", "add", "--detach", wt, "HEAD"], stdout=subprocess.DEVNULL, stderr=subprocess.DEVNULL)
    os.makedirs(wt + "/_out", exist_ok=True)
    json.dump(props[pid], open(wt + "/_out/property.json", "w"), indent=1)
    avoid = []
    for d in sorted(glob.glob(os.path.join(ROOT, "seeded", pid + "-m*"))):
        try: meta = json.load(open(d + "/meta.json"))
        except Exception: continue
        f = ""
        for l in open(d + "/patch.diff"):
            if l.startswith("+++ b/"): f = l[6:].strip(); break
        avoid.append("  - %s: %s (needed: %s)" % (f, meta.get("breaks", ""), meta.get("needs", "")))
    text = tmpl.replace("@WT@", wt).replace("@PROP@", json.dumps(props[pid], indent=1)).replace("@AVOID@", "\n".join(avoid) + "\n" + extra)
    open(wt + "/_out/prompt.txt", "w").write(text)
    print(wt, len(avoid), "earlier changes listed")
