#!/bin/bash
# usage: tools/regen_evidence.sh [quick|thorough] [ids...]  -- runs every registered check on /repo as it is and validates the evidence files
T="${1:-quick}"; shift
IDS="${@:-C01 C02 C03 C06 C07 C08 C09 C10 C11 C12 C15 C19}"
cd /verif || exit 2
for p in $IDS; do
  ./check $p $T > /tmp/regen_$p.out 2>&1; rc=$?
  echo "$p rc=$rc $(tail -1 /tmp/regen_$p.out | cut -c1-160)"
done
python3-vt - <<'PY'
import json, jsonschema, glob
sch = json.load(open('/root/.vp/EVIDENCE.schema.json'))
for f in sorted(glob.glob('/verif/evidence/*.json')):
    try: jsonschema.validate(json.load(open(f)), sch); print('valid', f)
    except Exception as e: print('INVALID', f, str(e)[:200])
PY
