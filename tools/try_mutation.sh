#!/bin/sh
# usage: tools/try_mutation.sh <patch.diff> <property id> [seconds]   -- applies the patch to /repo, runs the check, reverts
P="$1"; ID="$2"; T="${3:-40}"
cd /repo || exit 2
if ! patch -p1 --fuzz=3 -s --dry-run < "$P" >/dev/null 2>&1; then echo "PATCH DOES NOT APPLY: $P"; exit 3; fi
patch -p1 --fuzz=3 -s < "$P"
cd /verif
python3 tools/run_check.py "$ID" --time "$T" --evidence /tmp/evidence_mut.json > /tmp/mut_run.log 2>&1
rc=$?
git -C /repo checkout -- . ; find /repo/amgcl /repo/lib \( -name "*.orig" -o -name "*.rej" \) -delete 2>/dev/null; git -C /repo status --short | grep -v _build
grep -c "^VIOLATION" /tmp/mut_run.log | sed 's/^/violations: /'
grep "oracle=" /tmp/mut_run.log | sort | uniq -c | sort -rn | head -5
tail -1 /tmp/mut_run.log
# remove replays produced by the mutant
git -C /verif status --short replays | awk '{print $2}' | xargs -r rm -f
exit $rc
