#!/usr/bin/env python3
"""Mutation sweep (development tool, not a registered check): applies simple syntactic mutants to the anchor files of
the claimed properties in private copies of /repo/amgcl, rebuilds the relevant check binaries against the copy and
runs each for a few seconds.  Survivors point at oracles / worlds that are missing.

usage: mutation_sweep.py --out DIR [--per-file N] [--lanes L] [--secs S] [--files f1,f2,...] [--seed K]
Everything lives under /tmp/msweep (removed at the end unless --keep)."""
import sys, os, re, json, random, subprocess, shutil, time, argparse, threading, queue

ROOT = os.path.dirname(os.path.dirname(os.path.abspath(__file__)))
CLAIMED = ["C01", "C02", "C03", "C06", "C07", "C08", "C09", "C10", "C11", "C12", "C15", "C19"]
BIN = {"C01": ["c01"], "C02": ["c02"], "C03": ["c03"], "C06": ["c06"], "C07": ["c07"], "C08": ["c08"], "C09": ["c09"], "C10": ["c10"],
       "C11": ["c11"], "C12": ["c12"], "C15": ["c15"], "C19": ["c19"]}

def anchors():
    m = {}
    for l in open(os.path.join(ROOT, "properties.jsonl")):
        p = json.loads(l)
        if p["id"] not in CLAIMED: continue
        for f in p["anchors"]["files"]:
            if f.startswith("amgcl/") and os.path.exists("/repo/" + f):
                m.setdefault(f, []).append(p["id"])
    return m

REL = [(r" <= ", " < "), (r" >= ", " > "), (r" < ", " <= "), (r" > ", " >= "), (r" == ", " != "), (r" != ", " == "),
       (r" \+ ", " - "), (r" - ", " + "), (r" \+= ", " -= "), (r" -= ", " += "), (r" && ", " || "), (r" \|\| ", " && "),
       (r"\+ 1\b", "+ 2"), (r"- 1\b", "- 0"), (r"= 0;", "= 1;"), (r"\bi \+ 1\b", "i"), (r"\btrue\b", "false"), (r"\bfalse\b", "true"),
       (r"std::max", "std::min"), (r"std::min", "std::max"), (r"\* ", "/ ")]
DEL = re.compile(r"^\s*(backend::\w+\(|std::fill|std::swap|std::copy|std::sort|math::\w+\(|#pragma omp (barrier|critical|single|for nowait)|[\w\.\->\[\]\*\(\):]+\s*[\+\-\*]?=\s*[^=]).*[;)]?\s*$")
SKIP = re.compile(r"^\s*(//|\*|/\*|#include|#ifndef|#define|#endif|template|typedef|namespace|using|return;|\}|\{|$)|AMGCL_TIC|AMGCL_TOC|precondition\(|check_params|AMGCL_PARAMS|static_assert|std::cout|os <<")

def mutants_of(path, rng, limit):
    lines = open(path).read().split("\n")
    cands = []
    in_license = True
    for i, ln in enumerate(lines):
        if in_license:
            if ln.startswith("#include") or ln.startswith("namespace"): in_license = False
            else: continue
        if SKIP.search(ln): continue
        if "params(" in ln or "prm.get" in ln: continue
        for pat, rep in REL:
            for mt in re.finditer(pat, ln):
                new = ln[:mt.start()] + re.sub(pat, rep, ln[mt.start():mt.end()]) + ln[mt.end():]
                if new != ln: cands.append((i, new, "%s -> %s" % (pat, rep)))
        if DEL.match(ln) and ln.strip().endswith(";") and "(" in ln and not re.match(r"^\s*(const |auto |int |size_t |ptrdiff_t |double |float |bool |std::vector|typename |scalar_type |value_type |Ptr |Col |Val |for|if|while|else)", ln):
            cands.append((i, "", "delete statement"))
        if ln.strip().startswith("#pragma omp") and re.search(r"barrier|critical|single", ln):
            cands.append((i, "", "delete pragma"))
    rng.shuffle(cands)
    return lines, cands[:limit]

def run_bin(exe, secs, tmpd):
    t0 = time.time(); frm = 0; killed = None
    while time.time() - t0 < secs:
        try:
            p = subprocess.run([exe, "--seed", "77", "--from", str(frm), "--count", "100000000", "--time", str(max(1.0, secs - (time.time() - t0))),
                                "--known", os.path.join(ROOT, "known_findings.json"), "--replay-dir", tmpd, "--no-shrink"],
                               stdout=subprocess.PIPE, stderr=subprocess.DEVNULL, timeout=secs * 3 + 30, cwd=ROOT)
        except subprocess.TimeoutExpired:
            return "hang"
        out = p.stdout.decode("utf-8", "replace")
        last = frm
        for l in out.splitlines():
            if l.startswith("V "):
                try: j = json.loads(l[2:]); return "V " + j.get("oracle", "") + "|" + str(j.get("sig", {}).get("clause", ""))
                except Exception: return "V"
            if l.startswith("X "): return "crash"
            if l.startswith("E "): killed = "nondeterministic"
            if l.startswith("b "):
                try: last = int(l[2:])
                except Exception: pass
        if killed: return killed
        if p.returncode == 3: frm = last + 1; continue
        if p.returncode not in (0, 1, 2): return "crash rc=%d" % p.returncode
        break
    return None

def lane(k, q, results, secs, lock):
    base = "/tmp/msweep/lane%d" % k
    repo = base + "/repo"; bld = base + "/build"; tmpd = base + "/replays"
    shutil.rmtree(base, ignore_errors=True)
    os.makedirs(repo); os.makedirs(tmpd)
    shutil.copytree("/repo/amgcl", repo + "/amgcl")
    if os.path.exists("/repo/lib"): shutil.copytree("/repo/lib", repo + "/lib")
    while True:
        try: item = q.get_nowait()
        except queue.Empty: return
        f, pids, lines, (li, new, desc) = item
        target = repo + "/" + f
        orig = "\n".join(lines)
        mut = list(lines); mut[li] = new
        open(target, "w").write("\n".join(mut))
        verdict = "survived"; by = ""
        t0 = time.time()
        for pid in pids:
            for b in BIN[pid]:
                exe = "%s/plain/%s" % (bld, b)
                mk = subprocess.run(["make", "-C", ROOT, "REPO=" + repo, "B=" + bld, exe], stdout=subprocess.PIPE, stderr=subprocess.STDOUT)
                if mk.returncode != 0: verdict = "nocompile"; break
                r = run_bin(exe, secs, tmpd)
                if r: verdict = "killed"; by = "%s: %s" % (pid, r); break
            if verdict != "survived": break
        open(target, "w").write(orig)
        rec = {"file": f, "line": li + 1, "orig": lines[li].strip()[:160], "mutant": new.strip()[:160], "op": desc, "checks": pids, "verdict": verdict, "by": by, "secs": round(time.time() - t0, 1)}
        with lock:
            results.append(rec)
            print(json.dumps(rec), flush=True)

def main():
    ap = argparse.ArgumentParser()
    ap.add_argument("--out", required=True); ap.add_argument("--per-file", type=int, default=12); ap.add_argument("--lanes", type=int, default=12)
    ap.add_argument("--secs", type=float, default=10); ap.add_argument("--files", default=""); ap.add_argument("--seed", type=int, default=1); ap.add_argument("--keep", action="store_true")
    a = ap.parse_args()
    rng = random.Random(a.seed)
    am = anchors()
    files = sorted(am) if not a.files else [f for f in a.files.split(",")]
    q = queue.Queue(); items = []
    for f in files:
        lines, ms = mutants_of("/repo/" + f, rng, a.per_file)
        for m in ms: items.append((f, am.get(f, CLAIMED[:1]), lines, m))
    rng.shuffle(items)
    for it in items: q.put(it)
    print("# %d mutants over %d files" % (len(items), len(files)), flush=True)
    results = []; lock = threading.Lock()
    ths = [threading.Thread(target=lane, args=(k, q, results, a.secs, lock)) for k in range(a.lanes)]
    for t in ths: t.start()
    for t in ths: t.join()
    os.makedirs(a.out, exist_ok=True)
    json.dump(results, open(os.path.join(a.out, "mutation_sweep.json"), "w"), indent=1)
    n = len(results); k = sum(r["verdict"] == "killed" for r in results); nc = sum(r["verdict"] == "nocompile" for r in results)
    print("# mutants %d, not compiling %d, killed %d, survived %d" % (n, nc, k, n - nc - k))
    if not a.keep: shutil.rmtree("/tmp/msweep", ignore_errors=True)

if __name__ == "__main__":
    main()
