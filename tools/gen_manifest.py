#!/usr/bin/env python3
"""Writes /verif/MANIFEST.json from the table below (kept in one place so that it stays valid)."""
import json, os
ROOT = os.path.dirname(os.path.dirname(os.path.abspath(__file__)))

CLAIMED = {
 "C09": dict(cat="exploration", ref="4 (C09), 2.2, 2.4",
   text="Seeded search over thread counts 1..32 and over interleavings of the simulated OpenMP runtime (every fork, barrier, critical, single is a scheduler decision; strategies canonical/reverse/random/PCT/starve) for ten component families; oracles: bitwise equality across schedules at a fixed thread count, bitwise/rounding equality against the nt=1 (or nt=17) run by result class, level-scheduled Gauss-Seidel sweep == serial sweep, parallel ILU solve == serial solve up to rounding. A second stage compiles the same check with -fsanitize=thread instrumentation but links the simulator's own callbacks: every load/store inside a parallel region becomes a seeded preemption point and an event for a happens-before conflict detector (fork/join, barrier epochs, critical section, free->reuse edges); a candidate pair is confirmed by re-running the world with the two accesses forced into the opposite order and is a violation only if the result changes. The level-scheduled sweeps are additionally run on enumerated 3x3..5x5 sparsity patterns (one drawn per case in the quick tier, all of them walked by run index in the thorough tier); component parameters are varied by seed. Sampling, not proof: the right level for a property quantified over all schedules of a real OpenMP program.",
   note="trusted: the fiber runtime reproduces libgomp's static schedules bit for bit (checked against real libgomp at nt=1,2,4,5,17); sequential consistency (weak-memory reorderings are not explored); team size always as requested; accesses inside libc memcpy/memset are not instrumented",
   technique="deterministic simulation: seeded schedule search over a simulated OpenMP runtime (fibers), differential oracles across thread counts and schedules"),
 "C10": dict(cat="exploration", ref="4 (C10), 2.6",
   text="Heap-history differential: every generated valid world (incl. the degenerate inputs the statement lists) is run under a clean and three seeded dirty simulated heaps (fill 00/FF/AA/sNaN/random, LIFO recycling of stale blocks, shifted addresses, dirtied stack, 0-3 unrelated pre-history solves) and the complete output (hierarchy summary, preconditioner action, solution, iterations, residual, exception) must be bitwise identical; the simulated allocator's ledger must balance (no leak, no double/foreign delete - also for the zero-copy adapter); the same worlds run under ASan+UBSan with varying malloc fill; half of the worlds vary the component parameters by seed (fill factors, thresholds, dampings, strength thresholds, restart lengths, ...), so that correctness is not tied to one configuration. Sampling, not proof.",
   note="trusted: replaced global operator new/delete sees every owned array (malloc-level allocations of libc/Eigen are not filled); ASan/UBSan report classification by exit code 77; uninitialised reads that never reach an output are only caught by the sanitizer stage if they are out of bounds",
   technique="deterministic simulation: seeded heap-state fault injection (fill/recycle/address) with bitwise differential oracle + allocator ledger + sanitizers inside simulated runs",
   replay="./build/plain/c10 --replay {path}"),
 "C19": dict(cat="fault_enumeration", ref="4 (C19), 2.7",
   text="Fault enumeration on a simulated disk: images of MatrixMarket (sparse/dense, general/symmetric) and binary (CRS/dense) files for double/float/complex/integer data are damaged by explicit ops (truncation at EVERY byte offset of small images - exhaustive for the file at hand -, seeded bit flips, byte overwrites, lost tails, dropped/duplicated lines, corrupted banner keywords, inflated size fields, value/storage kind mismatch) and read back whole and by row range; oracle: fault-free images round-trip bitwise (incl. denormals, +-max, -0) and slices equal the full read; damaged images either throw std::exception or return a CRS structure valid for the sizes reported, and the four classes the statement names must throw; size-line fields moved by one in either direction must be rejected or yield a valid matrix; size / kind queries (crs_size, dense_size, mm_reader::is_*) must agree with what was written; binary images are written with the library's own writers; the same cases run under ASan+UBSan.",
   note="trusted: memfd-backed /proc/self/fd paths behave like files for ifstream/ofstream (seek, short read, EOF); libstdc++ number parsing; corruption positions are sampled, only truncation is exhaustive per image; images whose size fields imply >16M-element allocations are skipped in the ASan stage (ASan aborts instead of throwing bad_alloc) and run in the plain stage under RLIMIT_AS",
   technique="deterministic simulation: simulated file layer with exhaustive truncation and seeded corruption fault injection, round-trip reference model, sanitizers inside simulated runs",
   replay="./build/plain/c19 --replay {path}"),
 "C15": dict(cat="exploration", ref="4 (C15), 2.8",
   text="History exploration with failing calls as faults: seeded scripts of 2-12 operations on one solver object (all nine solver types, AMG and relaxation preconditioners and the deflated solver with 1-2 deflation vectors, both sides, small restart lengths, seeded component parameters, copied and zero-copy inputs) mix solves, alternative-matrix solves, preconditioner applications and rebuilds with injected failures (zero/NaN/Inf/overflowing inputs, zero alternative matrix, 1-4 iteration budgets, a preconditioner wrapper that throws or writes NaN/Inf at its k-th call); every operation is compared bitwise (x, iterations, residual, exception type) with a freshly constructed object executing that operation alone; zero rhs => zero in 0 iterations (unless ns_search is set); exact guess unchanged in 0 iterations; rhs and matrix arrays (incl. zero-copy user arrays) unmodified. Sampling of histories, not proof.",
   note="trusted: 'fresh object' model = same constructor arguments, thread count and replayed rebuilds; emin coarsening only at nt=1 (its critical accumulation is schedule dependent, see C09); LGMRES with always_reset=false is exercised but excluded from the equality oracle as documented",
   technique="deterministic simulation: seeded operation/fault scripts against a fresh-object reference model, bitwise history-independence oracle",
   replay="./build/plain/c15 --replay {path}"),
 "C03": dict(cat="exploration", ref="4 (C03)",
   text="History exploration over rebuild() sequences through the library's own policy seam: a recording coarsening policy and a recording relaxation policy log (A, P, R, A_c) of every level at construction and at every rebuild; invariants (Galerkin identity with the float over-interpolation factor against a dense long-double model, R = P^T, strictly decreasing sizes, coarsest-level solver choice) are checked after construction and after every rebuild; the history oracle compares the rebuilt hierarchy's action bitwise with a fresh hierarchy assembled from A' by a replaying policy that hands out the recorded P/R, and rebuild(A0) must restore the original action; both SpGEMM algorithms are reached through simulated thread counts <=16 and >=17; wrong-sized rebuilds are the injected failing calls; a fifth of the worlds are complex-valued or 2x2-block-valued hierarchies (aggregation-type coarsenings) where R must be the ADJOINT of P entry by entry and A_c = R*A*P is checked in the value type's own algebra, at construction and after a rebuild. Sampling of inputs and histories.",
   note="trusted: the dense long-double product as reference; smoother fixed to SPAI-0 (the relaxation does not enter the level matrices); Galerkin check on levels with <=160 rows",
   technique="deterministic simulation: seeded rebuild histories with failing calls, recording/replaying policy seam, fresh-object reference model + dense Galerkin invariant",
   replay="./build/plain/c03 --replay {path}"),
 "C08": dict(cat="exploration", ref="4 (C08)",
   text="The clause this technique decides is 'for all thread counts that select either SpGEMM algorithm' and every static chunking: each kernel runs inside a simulated OpenMP world (nt 1..32, seeded schedule, dirtied heap) on rectangular / empty-row / unsorted inputs with integer entries and is compared exactly with a dense model; structural invariants (monotone ptr, in-range columns, no duplicates for sorted inputs); Gershgorin >= spectral radius and power estimate <= largest singular value via Eigen; spgemm_saad and spgemm_rmerge are also called directly at every thread count; complex product and conjugate transpose against an exact complex model; the block_matrix adapter / unblock_matrix pair against the dense definition for 2x2..4x4 blocks. Sampling of inputs and thread counts, not the exhaustive small-pattern enumeration the statement also mentions.",
   note="trusted: dense map-based model, Eigen eigen/singular values (n<=60); thread counts above the core count exist only in the simulated runtime",
   technique="deterministic simulation: kernels under simulated thread counts/schedules (both SpGEMM paths) against an exact dense reference model",
   replay="./build/plain/c08 --replay {path}"),
 "C07": dict(cat="exploration", ref="4 (C07)",
   text="Decides the clauses of the statement that depend on prior memory content and on threading: every primitive is called inside a simulated OpenMP world (nt 1..32, every static chunking, per-thread partial sums of inner_product, seeded schedule, heap pre-filled with 0xAA) with its output buffer poisoned by NaN/+-Inf whenever the output coefficient is zero, and must return exactly the value of its defining formula (integer-valued data: exact in float, double, long double, complex, 2x2 blocks) on the builtin (all vector primitives also on 2x2 block vectors, vmul with a block diagonal), block_crs (sizes not divisible by the block), builtin_hybrid and Eigen (real and complex) backends; scalar vectors passed for block vectors must give identical bits. Sampling.",
   note="trusted: the formulas as coded in the harness (a few lines each); integer data make rounding irrelevant, so summation-order effects are out of scope here (they are C09's)",
   technique="deterministic simulation: primitives under simulated thread counts/schedules with poisoned output buffers (heap-content fault injection) against exact algebraic formulas",
   replay="./build/plain/c07 --replay {path}"),
 "C06": dict(cat="exploration", ref="4 (C06)",
   text="Decided by simulation: the parallel level-scheduled triangular solves of the ILU family and of Gauss-Seidel equal the serial ones (bitwise for Gauss-Seidel, to rounding for ILU) for thread counts 4..32 under two seeded schedules per case, and every smoother's sweep is schedule independent. Evaluated as invariants in the same simulated worlds because they are cheap there: fixed point of the exact solution for all nine smoothers, closed formulas for damped Jacobi / Gauss-Seidel / SPAI-0, (LU)_ij = a_ij on the pattern of A through the extracted iteration matrix, exactness on tridiagonal and arrow matrices (scalar and 2x2 non-commuting blocks) and for ILU(k>n), SPAI-1 least-squares normal equations, (LU)_ij = a_ij on the symbolic pattern of A^(k+1) for ILUP, the Chebyshev sweep as the degree-d Chebyshev polynomial q(A)e of the Gershgorin interval [lower*hi, higher*hi] (dense matrix recurrence, scaled and unscaled), apply() of every smoother against the sweep(s) from x = 0, ILU(k) against a reference factorisation with the library's level rule (worlds with a 'late admission', the recorded deviation of DESIGN 5.3 row 11, are skipped) and ILUT against a reference with the library's dual-threshold rule (worlds with magnitude ties are skipped).",
   note="trusted: Eigen for inversion of the extracted matrices (n<=40, diagonally dominant families keep them well conditioned); tolerances 1e-9..1e-12 relative; the ILU(k) / ILUT references pin the rules the library documents and implements (level = max + 1; row tolerance tau*sum|a_ij|/(lenL+lenU), int(len*p) largest entries kept, the diagonal counted with U): a deliberate change of those rules would be flagged although the statement itself does not fix them",
   technique="deterministic simulation: seeded schedules over the level-scheduled parallel sweeps vs the serial sweep, plus definitional invariants from dense reference models",
   replay="./build/plain/c06 --replay {path}"),
 "C02": dict(cat="exploration", ref="4 (C02)",
   text="Decides 'one fixed linear operator, independent of earlier applications' by history exploration: the operator is extracted column by column in a seeded shuffled order, interleaved with injected foreign applications (random, 1e200, zero, NaN- and Inf-containing right-hand sides) and extracted again; both extractions must agree bit for bit, in a simulated OpenMP world (nt up to 17, seeded schedule). The extracted matrix then gives, by one Eigen call each: linearity, symmetry, positive definiteness and rho(I-BA)<1 for the symmetric smoothers on SPD M-matrices, and exact power-of-two scaling. Sampling of inputs, configurations and histories.",
   note="trusted: Eigen symmetric eigen-solvers / Cholesky (n<=300); strict inequalities decided with a 1e-10 margin; plain aggregation with the default over-interpolation is a recorded finding for the contraction and positivity clauses",
   technique="deterministic simulation: application histories with injected non-finite/huge inputs against the twice-extracted operator; spectral invariants on the extracted model",
   replay="./build/plain/c02 --replay {path}"),
 "C01": dict(cat="exploration", ref="4 (C01)",
   text="Weakest fit of the twelve and stated as such: the statement quantifies over inputs and configurations; what the simulator adds is that every returned (iterations, residual) is produced inside a simulated world - thread counts 1..32 (cross-thread reductions in every inner product, thread-seeded IDR(s) space), seeded schedules, dirtied heap, a warm-up solve on the same object - and is checked against an independent long-double residual computed from the caller's own arrays (with the same preconditioner object for left preconditioning), the iteration budget, and the rule that non-finite outcomes are reported as non-finite. The convergence clause is checked on the narrow isotropic diffusion family with forced multilevel hierarchies and default parameters. A fifth of the non-model worlds are complex-valued (Hermitian and not) or 2x2-block-valued systems judged in their own algebra; half of the non-model worlds vary the remaining component parameters by seed (Richardson damping, BiCGStab(L) delta/convex, IDR(s) smoothing/replacement/omega, restart lengths, fill factors, ...). Sampling.",
   note="trusted: the rounding floor delta = 600*(iters+1)*(longest row + 1)*u*(|A||x|/|f| + 1), multiplied by the measured amplification |A P g|/|g| of the preconditioned operator (right-hand side and a random probe) plus its measured linearity defect (x100 for left preconditioning) - 0 violations in 360 000 solves of the unchanged tree; cases whose floor exceeds a tenth of the tolerance are not judged (about a third); plain aggregation with default over-interpolation is a recorded finding for the convergence clause",
   technique="deterministic simulation: truthfulness invariant over solves executed in simulated thread-count/schedule/heap/reuse worlds, independent long-double residual oracle",
   replay="./build/plain/c01 --replay {path}"),
 "C11": dict(cat="exploration", ref="4 (C11), 2.5",
   text="Every number of ranks 1..8 and seeded contiguous partitions (all compositions, empty ranks included) are explored inside a simulated MPI in which ranks are fibers and every message, request and collective is a simulator object: delivery timing faults that a conforming MPI may show (send buffers read as late as the wait, receive buffers poisoned until the wait, rendezvous sends, a stalled rank, shuffled completion order) and seeded rank interleavings; each rank's results are written to harness memory and compared exactly (integer data) with the serial kernels on the assembled matrix; collective scalars (global sizes, inner product, plain and scaled Gershgorin estimate) must be bitwise identical on all ranks and equal to the serial value, the plain and scaled power estimates identical on all ranks; square matrices are distributed conformally or with independent row and column distributions; one object is moved to the backend with keep_src=true and then transposed, multiplied and copied again (history on one object). The no-deadlock detector turns a blocked world into a violation with the blocked call of every rank. Sampling.",
   note="trusted: the simulated MPI keeps non-overtaking order, matches collectives in call order and reduces in rank order (what mainstream MPIs do); loss/duplication/corruption/rank crashes are not injected because MPI promises reliable delivery; the real OpenMPI is never run",
   technique="deterministic simulation: simulated MPI (ranks as fibers) with seeded partitions, delivery-timing fault injection and schedule search; serial reference model",
   replay="./build/plain/c11 --replay {path}"),
 "C12": dict(cat="exploration", ref="4 (C12), 2.5",
   text="The distributed coupled solver (mpi::amg through the MPI run-time wrappers, PMIS/aggregation coarsening, nine relaxations, eight solvers, skyline_lu coarse solver, merge repartitioning on and off; in 30% of the worlds mpi::subdomain_deflation with 1-2 deflation vectors or mpi::block_preconditioner around a local AMG / smoother; seeded cycle and component parameters) runs on 1..8 simulated ranks with seeded row distributions (empty ranks included), seeded rank interleavings and legal delivery-timing faults; oracles: every rank terminates (deadlock detector with the blocked call of each rank), identical (iterations, residual) bits on all ranks, the gathered solution has that true global residual (long double, harness side), convergence on SPD M-matrices with default parameters; through a recording distributed coarsening wrapper: every rank coarsens every level, R = P^T, A_c = R*A*P (dense long-double model, levels <= 260 rows), every unknown with a strong neighbour (at the configured threshold) lies in an aggregate, no empty aggregate, exactly one unit entry per row for plain aggregation, and with supplied near-null-space vectors P*(P^T*B) = B on the aggregated rows, chained over the levels. Not decided separately: exactness of the distributed direct coarse solver (only through the solves). Sampling.",
   note="trusted: as C11; partitioners other than merge and direct solvers other than skyline_lu are not available offline; worlds stop at 8 ranks and 900 unknowns; recorded findings for block-local Gauss-Seidel, CG with non-symmetric smoothers, Richardson with plain aggregation, aggregates smaller than the number of near-null-space vectors, and near-null-space vectors with repartitioning (the latter combination is not generated: it reads out of bounds); worlds with near-null-space vectors run on hierarchies of 2-3 levels without a convergence promise; subdomain deflation needs a non-empty subdomain per rank",
   technique="deterministic simulation: simulated MPI with delivery-timing fault injection, deadlock detection, rank-agreement and gathered-residual oracles",
   replay="./build/plain/c12 --replay {path}"),
}
NA_PURE = {
 "C04": "pure function of (matrix, parameters): aggregation is a serial greedy loop, its parallel loops are statically partitioned without reductions; no schedule, fault or history can change the result (thread-count independence of the operators is exercised under C09)",
 "C05": "exact-arithmetic identities of a single call compared with a reference implementation; nothing a scheduler or fault injector controls enters (state reuse between calls is C15)",
 "C13": "equivalence of several encodings of one input (block/complex/mixed precision); pure function of the input",
 "C14": "property of hand-written parameter lists (run-time vs compile-time configuration); no concurrency, time, I/O or history",
 "C16": "serial dense/direct kernels; pure functions of their input (the one stateful scratch vector of skyline_lu is covered by C15's reuse scripts)",
 "C17": "adapters are pure views of the input; the single environment-facing clause (zero-copy variants never copy or free user memory) is observed by C10's simulated-heap ledger",
 "C18": "algebraic identities of one application with exact inner solves; pure function of the input",
 "C20": "equivalence of two entry points (C API vs C++) for the same arguments; no concurrency, clock, I/O fault or history dimension",
}
NOT_YET = {}

def main():
    checks = []
    for pid in sorted(CLAIMED):
        c = CLAIMED[pid]
        checks.append({
            "property_id": pid,
            "quick_cmd": "./check %s quick" % pid,
            "thorough_cmd": "./check %s thorough" % pid,
            "evidence_file": "/verif/evidence/%s.json" % pid,
            "replay_cmd_template": c.get("replay", "./build/plain/%s --replay {path}" % pid.lower()),
            "engine": "amgsim",
            "level_claimed": {"category": c["cat"], "text": c["text"], "design_ref": "DESIGN.md section " + c["ref"]},
            "level_note": c["note"],
            "technique": c["technique"],
        })
    na = [{"property_id": k, "reason": v} for k, v in sorted(NA_PURE.items())]
    import importlib.util
    props = [json.loads(l)["id"] for l in open(os.path.join(ROOT, "properties.jsonl"))]
    for pid in props:
        if pid not in CLAIMED and pid not in NA_PURE:
            na.append({"property_id": pid, "reason": NOT_YET.get(pid, "simulation check designed (DESIGN.md section 4) but not built yet in this state of /verif; not claimed until its check is registered")})
    na.sort(key=lambda e: e["property_id"])
    m = {
        "version": 1,
        "setup_cmd": "make -C /verif -j16 all",
        "hooks": {
            "guard": "AMGCL_VERIF_SIM",
            "enable": "none needed: every seam is link-time (GOMP_*/omp_* symbols, operator new/delete, __tsan_* callbacks, mpi.h on the include path) or a template parameter; -DAMGCL_VERIF_SIM is passed for completeness and guards nothing in /repo",
            "baseline_off_cmd": "cmake -G Ninja -S /repo -B /repo/_build -DAMGCL_BUILD_TESTS=ON -DCMAKE_BUILD_TYPE=RelWithDebInfo -DCMAKE_CXX_FLAGS=-Wno-error && cmake --build /repo/_build && ctest --test-dir /repo/_build -j8 --timeout 900",
            "source_commits": [],
            "add_only": True,
        },
        "engines": [{"name": "amgsim", "path": "/verif/sim", "serves_properties": sorted(CLAIMED),
                     "kind_free_text": "deterministic simulator: cooperative fibers on one OS thread, seeded scheduler (canonical/reverse/random/PCT/starve/explicit replay), simulated OpenMP runtime, simulated heap, simulated MPI, simulated files, memory-access tracing via -fsanitize=thread callbacks; seeded plan generation, delta-debugging shrinker, replay files"}],
        "checks": checks,
        "not_applicable": na,
        "notes": "All checks: ./check <id> quick|thorough (tools/run_check.py). VERIF_SEED selects the seed. Known findings and fixed defects: /verif/known_findings.json. fix: commits in /repo are listed in DESIGN.md section 5.",
    }
    json.dump(m, open(os.path.join(ROOT, "MANIFEST.json"), "w"), indent=1)

if __name__ == "__main__":
    main()
