#!/usr/bin/env python3
"""amgsim runner: build from /repo's working tree, run seeded simulated worlds on all cores, gate every
violation by a fresh-process replay, consult known_findings.json, write the evidence file.

usage: run_check.py <property id> [--tier quick|thorough] [--time SECONDS] [--workers N]
exit: 0 property held on everything explored (KNOWN-FINDING lines allowed), 1 violation (VIOLATION line),
      2 the machinery itself misbehaved (build failure, non-deterministic replay, ...).
"""
import sys, os, json, subprocess, time, argparse, threading, signal, shutil, re

ROOT = os.path.dirname(os.path.dirname(os.path.abspath(__file__)))
REPO = os.environ.get("AMGSIM_REPO", "/repo")

# stage: (flavour, binary, share of the time budget, extra args)
CHECKS = {
    "C09": {"stages": [("plain", "c09", 0.6, []), ("trace", "c09t", 0.4, [])], "level": "exploration"},
    "C08": {"stages": [("plain", "c08", 1.0, [])], "level": "exploration"},
    "C07": {"stages": [("plain", "c07", 1.0, [])], "level": "exploration"},
    "C06": {"stages": [("plain", "c06", 1.0, [])], "level": "exploration"},
    "C10": {"stages": [("plain", "c10", 0.5, []), ("asan", "c10", 0.5, [])], "level": "exploration"},
    "C15": {"stages": [("plain", "c15", 1.0, [])], "level": "exploration"},
    "C03": {"stages": [("plain", "c03", 1.0, [])], "level": "exploration"},
    "C02": {"stages": [("plain", "c02", 1.0, [])], "level": "exploration"},
    "C01": {"stages": [("plain", "c01", 1.0, [])], "level": "exploration"},
    "C11": {"stages": [("plain", "c11", 0.7, []), ("asan", "c11", 0.3, [])], "level": "exploration"},
    "C12": {"stages": [("plain", "c12", 0.7, []), ("asan", "c12", 0.3, [])], "level": "exploration"},
    "C19": {"stages": [("plain", "c19", 0.5, []), ("asan", "c19", 0.5, [])], "level": "fault_enumeration"},
}
TIER_SECONDS = {"quick": 90, "thorough": 900}
HANG_LIMIT = {"quick": 60.0, "thorough": 300.0}     # seconds without any output from a worker

REAL_VS_STUB = {
    "amgcl headers (compiled from /repo working tree)": "real",
    "libstdc++, Eigen3, Boost.PropertyTree": "real",
    "OpenMP runtime (libgomp)": "simulated: sim/gomp.cpp on amgsim fibers",
    "MPI library": "simulated: sim/mpi.cpp (ranks are fibers) - only in C11/C12",
    "operator new/delete": "simulated arena with seeded fill/recycle/shift (plain, trace); ASan allocator with malloc_fill_byte (asan)",
    "files": "simulated images behind memfd paths (C19); ifstream/ofstream real",
    "wall clock": "simulated tick counter (omp_get_wtime)",
    "CPU memory model": "not simulated (sequentially consistent interleavings only)",
}


def log(*a):
    print(*a, flush=True)


class Worker:
    def __init__(self, idx, cmd, env):
        self.idx = idx
        self.cmd = cmd
        self.env = env
        self.proc = None
        self.last_begin = None
        self.last_done = None
        self.summary = None
        self.lines_v = []
        self.lines_k = []
        self.lines_e = []
        self.keys = {}
        self.crash = None
        self.last_output = time.time()
        self.stderr_tail = b""
        self.nruns = 0
        self.nnontrivial = 0

    def start(self):
        self.proc = subprocess.Popen(self.cmd, stdout=subprocess.PIPE, stderr=subprocess.PIPE, env=self.env, cwd=ROOT)
        self.t = threading.Thread(target=self.pump, daemon=True)
        self.t.start()
        self.te = threading.Thread(target=self.pump_err, daemon=True)
        self.te.start()

    def pump_err(self):
        for line in self.proc.stderr:
            self.stderr_tail = (self.stderr_tail + line)[-6000:]

    def pump(self):
        for raw in self.proc.stdout:
            self.last_output = time.time()
            line = raw.decode("utf-8", "replace").rstrip("\n")
            if not line:
                continue
            tag = line[0]
            if tag == "b":
                self.last_begin = int(line[2:])
            elif tag == "r":
                parts = line.split()
                self.last_done = int(parts[1])
                self.nruns += 1
                if parts[2] == "n":
                    self.keys[parts[3]] = 1
                    self.nnontrivial += 1
            elif tag == "S":
                try:
                    self.summary = json.loads(line[2:])
                except Exception:
                    pass
            elif tag == "V":
                self.lines_v.append(json.loads(line[2:]))
            elif tag == "K":
                self.lines_k.append(json.loads(line[2:]))
            elif tag == "E":
                self.lines_e.append(json.loads(line[2:]))
            elif tag == "X":
                self.crash = line


def merge_maps(into, frm):
    for k, v in (frm or {}).items():
        into[k] = into.get(k, 0) + v


def run_stage(pid, flavour, binary, seconds, tier, seed, nworkers, extra, known_path, replay_dir, agg):
    exe = os.path.join(ROOT, "build", flavour, binary)
    workers = []
    t0 = time.time()
    for w in range(nworkers):
        env = dict(os.environ)
        env.pop("ASAN_OPTIONS", None)
        env.pop("UBSAN_OPTIONS", None)
        if flavour == "asan":
            fills = [0x00, 0xFF, 0xAA, 0xBE, 0x7F, 0x55]
            env["ASAN_OPTIONS"] = "exitcode=77:detect_leaks=0:malloc_fill_byte=%d:max_malloc_fill_size=1073741824:allocator_may_return_null=0:max_allocation_size_mb=2048:detect_stack_use_after_return=0:clear_shadow_mmap_threshold=16777216" % fills[w % len(fills)]
            env["UBSAN_OPTIONS"] = "halt_on_error=1:exitcode=77:print_stacktrace=1"
            env["AMGSIM_ASAN_FILL"] = "%d" % fills[w % len(fills)]
        cmd = [exe, "--seed", str(seed), "--from", str(w), "--stride", str(nworkers), "--count", "1000000000",
               "--time", str(seconds), "--tier", tier, "--replay-dir", replay_dir, "--known", known_path, "--shrink-secs", "20" if tier == "quick" else "120"] + extra
        wk = Worker(w, cmd, env)
        wk.start()
        workers.append(wk)
    crashes = []
    hang_limit = HANG_LIMIT[tier]
    active = list(workers)
    restarts = 0
    while active:
        time.sleep(0.2)
        for wk in list(active):
            rc = wk.proc.poll()
            now = time.time()
            if rc is None:
                if now - wk.last_output > hang_limit:
                    wk.proc.kill()
                    wk.t.join(2)
                    crashes.append({"run": wk.last_begin, "kind": "hang", "flavour": flavour, "stderr": ""})
                    active.remove(wk)
                continue
            wk.t.join(5)
            wk.te.join(2)
            active.remove(wk)
            if rc in (0, 1, 2):
                continue
            if rc == 3:
                # the worker abandoned a simulated world (deadlock / budget), reported it, and asked to be restarted
                remaining = seconds - (now - t0)
                if wk.last_begin is not None and remaining > 1 and restarts < 20000:
                    restarts += 1
                    cmd = list(wk.cmd)
                    cmd[cmd.index("--from") + 1] = str(wk.last_begin + nworkers)
                    cmd[cmd.index("--time") + 1] = str(remaining)
                    nw = Worker(wk.idx, cmd, wk.env)
                    nw.start()
                    workers.append(nw)
                    active.append(nw)
                continue
            # the worker died: the run it had begun is the suspect; restart after it
            bad = wk.last_begin
            crashes.append({"run": bad, "kind": "crash rc=%d %s" % (rc, wk.crash or ""), "flavour": flavour,
                            "stderr": wk.stderr_tail.decode("utf-8", "replace")[-3000:]})
            remaining = seconds - (now - t0)
            if bad is not None and remaining > 2 and restarts < 200:
                restarts += 1
                nxt = bad + nworkers
                cmd = list(wk.cmd)
                cmd[cmd.index("--from") + 1] = str(nxt)
                cmd[cmd.index("--time") + 1] = str(remaining)
                nw = Worker(wk.idx, cmd, wk.env)
                nw.start()
                workers.append(nw)
                active.append(nw)
    # aggregate
    for wk in workers:
        s = wk.summary or {}
        # a worker that crashed or was restarted emitted its last summary up to two seconds before: the result lines it
        # printed are the measured count of completed runs
        s = dict(s); s["evaluations"] = max(s.get("evaluations", 0), wk.nruns); s["nontrivial"] = max(s.get("nontrivial", 0), wk.nnontrivial)
        for k in ("evaluations", "nontrivial", "ticks", "micro_ticks", "switches", "worlds", "known_hits"):
            agg[k] = agg.get(k, 0) + s.get(k, 0)
        for k in ("faults", "counts", "strategies", "probes"):
            merge_maps(agg.setdefault(k, {}), s.get(k))
        if s.get("slowest_run_s", 0) > agg.get("slowest_run_s", 0):
            agg["slowest_run_s"] = s.get("slowest_run_s", 0); agg["slowest_run"] = "%s/%s run %s" % (flavour, binary, s.get("slowest_run"))
        for smp in s.get("samples", []):
            if len(agg.setdefault("samples", [])) < 12:
                agg["samples"].append(smp)
        agg.setdefault("keys", {}).update(wk.keys)
        agg.setdefault("violations", []).extend([dict(v, flavour=flavour, exe=exe) for v in wk.lines_v])
        agg.setdefault("known", []).extend(wk.lines_k)
        agg.setdefault("errors", []).extend(wk.lines_e)
    agg.setdefault("crashes", []).extend([dict(c, exe=exe) for c in crashes])
    agg.setdefault("stage_wall", {})["%s/%s" % (flavour, binary)] = time.time() - t0
    agg["restarts"] = agg.get("restarts", 0) + restarts


def classify_crash(pid, crash, seed, tier, replay_dir, known):
    """Replay the suspect run alone, in a fresh process.  A crash that reproduces is a violation whose replay file is
    the plan of that run; one that does not is reported as a simulator problem (exit 2)."""
    if crash["run"] is None:
        return ("error", "worker died before starting a run: " + crash["kind"] + " " + crash.get("stderr", "")[-500:])
    exe = crash["exe"]
    env = dict(os.environ)
    if crash["flavour"] == "asan":
        env["ASAN_OPTIONS"] = "exitcode=77:detect_leaks=0:max_allocation_size_mb=2048:allocator_may_return_null=0"
        env["UBSAN_OPTIONS"] = "halt_on_error=1:exitcode=77:print_stacktrace=1"
    cmd = [exe, "--seed", str(seed), "--from", str(crash["run"]), "--count", "1", "--tier", tier, "--print-plan", "--no-shrink",
           "--replay-dir", replay_dir]
    outs = []
    for attempt in range(2):
        if attempt == 1 and outs[0][0] == -9:
            outs.append(outs[0])       # a replayed hang is not replayed twice
            break
        try:
            p = subprocess.run(cmd, stdout=subprocess.PIPE, stderr=subprocess.PIPE, env=env, cwd=ROOT, timeout=3 * HANG_LIMIT[tier])
            outs.append((p.returncode, p.stdout.decode("utf-8", "replace"), p.stderr.decode("utf-8", "replace")))
        except subprocess.TimeoutExpired as e:
            outs.append((-9, (e.stdout or b"").decode("utf-8", "replace"), "timeout"))
    rcs = [o[0] for o in outs]
    if all(rc in (0, 1, 2) for rc in rcs):
        # the crash happened while gating/shrinking: the un-shrunk violation reported by the fresh process stands
        vs = [json.loads(l[2:]) for l in outs[0][1].splitlines() if l.startswith("V ")]
        ks = [json.loads(l[2:]) for l in outs[0][1].splitlines() if l.startswith("K ")]
        if vs or ks:
            return ("violations", [dict(v, flavour=crash["flavour"], exe=exe) for v in vs], ks)
        if crash["kind"] == "hang":
            return ("note", "run %s produced no output for %.0f s in its worker but completes when replayed alone (slow run under load, not a hang)" % (crash["run"], HANG_LIMIT[tier]))
        return ("error", "crash of run %s did not reproduce in a fresh process (%s)" % (crash["run"], crash["kind"]))
    if rcs[0] != rcs[1]:
        return ("error", "crash of run %s reproduces inconsistently: %s" % (crash["run"], rcs))
    plan = None
    for line in outs[0][1].splitlines():
        if line.startswith("P "):
            plan = json.loads(line[2:])
    stderr = outs[0][2]
    kind = "crash"
    m = re.search(r"ERROR: AddressSanitizer: ([\w-]+)", stderr)
    site = ""
    if m:
        kind = "asan-" + m.group(1)
    elif "runtime error:" in stderr:
        kind = "ubsan"
    elif "LeakSanitizer" in stderr:
        kind = "leak"
    elif rcs[0] == -9:
        kind = "hang"
    ms = re.findall(r"(/repo/amgcl/[\w/\.]+:\d+)", stderr)
    if ms:
        site = ms[0].replace("/repo/", "")
    path = os.path.join(replay_dir, "%s-%s-%s-crash.json" % (pid, seed, crash["run"]))
    viol = {"oracle": "no-crash", "sig": {"component": "process", "clause": kind, "site": site}, "detail": stderr[-1500:]}
    with open(path, "w") as f:
        json.dump({"check": pid, "plan": plan, "violation": viol, "class": "no-crash|process|" + kind, "hash": "crash",
                   "crash": True, "flavour": crash["flavour"], "rc": rcs[0]}, f)
    return ("violation", dict(viol, replay=path, run=crash["run"], flavour=crash["flavour"], exe=exe, crash=True))


def known_match(known, pid, v):
    for k in known:
        if k.get("status") != "known" or k.get("property") != pid or k.get("oracle") != v.get("oracle"):
            continue
        ok = True
        for key, want in (k.get("match") or {}).items():
            have = (v.get("sig") or {}).get(key, "")
            wants = want if isinstance(want, list) else [want]
            if have not in [str(x) for x in wants]:
                ok = False
        if ok:
            return k
    return None


def main():
    ap = argparse.ArgumentParser()
    ap.add_argument("pid")
    ap.add_argument("--tier", default=os.environ.get("VERIF_TIER", "quick"))
    ap.add_argument("--time", type=float, default=None)
    ap.add_argument("--workers", type=int, default=int(os.environ.get("AMGSIM_WORKERS", "0")) or min(16, os.cpu_count() or 4))
    ap.add_argument("--no-build", action="store_true")
    ap.add_argument("--evidence", default=None)
    args = ap.parse_args()
    pid = args.pid
    tier = args.tier if args.tier in ("quick", "thorough") else "quick"
    seed = int(os.environ.get("VERIF_SEED", "20261004") or "20261004")
    spec = CHECKS[pid]
    budget = args.time if args.time else TIER_SECONDS[tier]
    t_start = time.time()
    replay_dir = os.path.join(ROOT, "replays")
    os.makedirs(replay_dir, exist_ok=True)
    for fn in os.listdir(replay_dir):          # replay files of earlier runs of this check
        if fn.startswith(pid + "-") and fn.endswith(".json"):
            try:
                os.unlink(os.path.join(replay_dir, fn))
            except OSError:
                pass
    os.makedirs(os.path.join(ROOT, "evidence"), exist_ok=True)
    known_path = os.path.join(ROOT, "known_findings.json")
    try:
        known = json.load(open(known_path)).get("findings", [])
    except Exception:
        known = []

    # 1. build from /repo's current working tree
    stages = [s for s in spec["stages"] if os.path.exists(os.path.join(ROOT, "checks", s[1] + ".cpp"))]
    if not stages:
        log("no stage of %s is built yet" % pid)
        return 2
    if not args.no_build:
        targets = ["build/%s/%s" % (s[0], s[1]) for s in stages]
        p = subprocess.run(["make", "-C", ROOT, "-j16", "REPO=" + REPO] + targets, stdout=subprocess.PIPE, stderr=subprocess.STDOUT)
        if p.returncode != 0:
            sys.stdout.write(p.stdout.decode("utf-8", "replace")[-6000:])
            log("BUILD-FAILED property=%s" % pid)
            return 2
    build_s = time.time() - t_start

    # 2. simulated runs
    agg = {}
    share_total = sum(s[2] for s in stages)
    for (flavour, binary, share, extra) in stages:
        run_stage(pid, flavour, binary, budget * share / share_total, tier, seed, args.workers, extra, known_path, replay_dir, agg)

    rc = 0
    messages = []
    violations = list(agg.get("violations", []))
    # 3. crashed runs -> classified by a fresh-process replay
    crashes = agg.get("crashes", [])
    if len(crashes) > 8:
        messages.append("NOTE %d further worker crashes were not classified individually" % (len(crashes) - 8))
    for c in crashes[:8]:
        cc = classify_crash(pid, c, seed, tier, replay_dir, known)
        kind, val = cc[0], cc[1]
        if kind == "violations":
            violations.extend(val)
            agg.setdefault("known", []).extend(cc[2])
        elif kind == "note":
            messages.append("NOTE " + val)
        elif kind == "error":
            messages.append("SIMULATOR-PROBLEM " + val)
            rc = 2
        else:
            k = known_match(known, pid, val)
            if k:
                agg.setdefault("known", []).append(dict(val, known_id=k.get("id")))
            else:
                violations.append(val)
    for e in agg.get("errors", []):
        messages.append("SIMULATOR-PROBLEM " + json.dumps(e)[:600])
        rc = 2

    # 4. fresh-process replay gate for every violation
    confirmed = []
    seen_classes = {}
    for v in violations:
        if v.get("crash"):
            confirmed.append(v)
            continue
        cls = v.get("class")
        if seen_classes.get(cls, 0) >= 3:      # report at most three replays per class
            continue
        env = dict(os.environ)
        p = subprocess.run([v["exe"], "--replay", v["replay"]], stdout=subprocess.PIPE, stderr=subprocess.PIPE, cwd=ROOT, env=env)
        out = p.stdout.decode("utf-8", "replace").strip()
        if p.returncode == 1:
            seen_classes[cls] = seen_classes.get(cls, 0) + 1
            confirmed.append(v)
        else:
            messages.append("SIMULATOR-PROBLEM replay of %s did not reproduce exactly: rc=%d %s" % (v["replay"], p.returncode, out[-300:]))
            rc = 2

    # 5. known findings: one line per listed finding of this property
    known_hits = {}
    for k in agg.get("known", []):
        known_hits[k.get("known_id")] = known_hits.get(k.get("known_id"), 0) + 1
    for k in known:
        if k.get("property") != pid or k.get("status") != "known":
            continue
        n = known_hits.get(k.get("id"), 0)
        log("KNOWN-FINDING: property=%s id=%s %s (%s)" % (pid, k.get("id"), k.get("what"), "reproduced %d times in this run" % n if n else "not sampled in this run"))

    for m in messages:
        log(m)
    def symbolise(v):
        d = v.get("detail") or ""
        pcs = re.findall(r"0x[0-9a-f]{5,12}", d)
        if not pcs or not v.get("exe"):
            return ""
        try:
            out = subprocess.run(["addr2line", "-e", v["exe"], "-f", "-C", "-i"] + pcs[:2], stdout=subprocess.PIPE, stderr=subprocess.DEVNULL, timeout=20).stdout.decode("utf-8", "replace")
            lines = [l for l in out.splitlines() if "/repo/" in l or "amgcl" in l]
            return " ; ".join(l.replace("/repo/", "") for l in lines[:4])
        except Exception:
            return ""
    for v in confirmed:
        log("VIOLATION property=%s replay=%s" % (pid, v["replay"]))
        sym = symbolise(v)
        if sym:
            log("  source=%s" % sym)
        log("  oracle=%s sig=%s" % (v.get("oracle"), json.dumps(v.get("sig"))))
        log("  detail=%s" % (v.get("detail") or "")[:800].replace("\n", " | "))
    if confirmed:
        rc = 1      # a confirmed, replayable violation takes precedence over simulator problems seen in the same batch

    # 6. evidence
    wall = time.time() - t_start
    evals = int(agg.get("evaluations", 0))
    run_wall = sum(agg.get("stage_wall", {}).values()) or 1e-9
    coverage = {
        "evaluations": evals,
        "distinct_nontrivial": len(agg.get("keys", {})),
        "rule": RULES.get(pid, ""),
        "samples": agg.get("samples", [])[:8],
        "simulated_runs_per_hour": int(evals / run_wall * 3600),
        "seeds": {"VERIF_SEED": seed, "runs": "run index i of worker w is w + i*workers; every run derives all streams from (VERIF_SEED, run index)"},
        "simulated_time_ticks": int(agg.get("ticks", 0)),
        "simulated_micro_ticks_instrumented_accesses": int(agg.get("micro_ticks", 0)),
        "context_switches": int(agg.get("switches", 0)),
        "simulated_worlds": int(agg.get("worlds", 0)),
        "fault_kinds_fired": agg.get("faults", {}),
        "schedule_strategies": agg.get("strategies", {}),
        "probes": agg.get("probes", {}),
        "counters": agg.get("counts", {}),
        "known_finding_hits": known_hits,
        "worker_restarts": agg.get("restarts", 0),
        "slowest_run_s": round(agg.get("slowest_run_s", 0), 3), "slowest_run": agg.get("slowest_run", ""),
        "stages_wall_s": agg.get("stage_wall", {}),
        "build_s": round(build_s, 1),
        "real_vs_stub": REAL_VS_STUB,
        "exhaustive": False,
    }
    ev = {
        "property_id": pid, "tier": tier, "seed": seed, "level": spec["level"],
        "coverage": coverage,
        "assumptions": ASSUMPTIONS.get(pid, []) + COMMON_ASSUMPTIONS,
        "wall_s": round(wall, 2),
        "violations": len(confirmed),
    }
    evpath = args.evidence or os.path.join(ROOT, "evidence", pid + ".json")
    with open(evpath, "w") as f:
        json.dump(ev, f, indent=1)
    log("%s tier=%s seed=%d evaluations=%d distinct_nontrivial=%d violations=%d known_hits=%d wall=%.1fs rc=%d" % (
        pid, tier, seed, evals, coverage["distinct_nontrivial"], len(confirmed), sum(known_hits.values()), wall, rc))
    return rc


COMMON_ASSUMPTIONS = [
    "executions are sequentially consistent interleavings; weak-memory reorderings are not explored",
    "a clean batch is evidence from seeded sampling, not a proof",
    "the simulated OpenMP runtime delivers exactly the team size requested (no dyn-var), nested regions get a team of one as libgomp does",
]
ASSUMPTIONS = {}
RULES = {
    "C11": "world = (global rectangular integer-valued matrices A (n x m), B (m x k), R = 1..8 simulated ranks, contiguous row/column partitions drawn from all compositions incl. empty ranks, nt per rank, delivery faults late_send_read / recv_poison / rendezvous, schedule incl. a stalled rank, shuffled Waitall order); every rank runs: construction from strips, transpose, product, scale+sort_rows, copy into a float backend, Gershgorin and power estimates, spmv with beta=0 into NaN and repeated spmv on the same object, residual, inner product; results are assembled in harness memory and compared exactly with the serial kernels; non-trivial = R>=2 and >=1 message; distinct by hash(matrices, partitions, fault switches, schedule deviations); square matrices conformal or with independent column distribution; scaled Gershgorin / scaled power estimate; keep_src history (move_to_backend(keep_src), then transpose / product / copy / spmv of the same object)",
    "C12": "world = (SPD M-matrix n 20..900, R = 1..8 simulated ranks, contiguous row distribution incl. empty ranks, mpi::amg through the run-time wrappers: coarsening aggregation|smoothed_aggregation (PMIS), 9 relaxations, 8 solvers, skyline_lu direct solver, merge repartitioner on/off with small min_per_proc, coarse_enough 2..40, delivery faults and schedules as in C11); oracles: no deadlock (every rank terminates), identical (iterations, residual) bits on all ranks, gathered solution has the reported true global residual, Krylov solvers reach 1e-8 in 200 iterations and Richardson does not diverge; non-trivial = R>=2 and >=1 message; distinct by hash(matrix, partition, configuration, fault switches, schedule deviations); 8% of the worlds run the distributed direct solver alone (exact against a dense LU of the gathered system); 30% of the worlds run mpi::subdomain_deflation (1-2 deflation vectors) or mpi::block_preconditioner (local AMG or smoother) instead of mpi::amg; 35% of the plain-aggregation worlds supply 1-3 near-null-space vectors (2-3 level hierarchies, repartitioning off) and check P*(P^T*B) = B chained over the levels; 30% vary cycle / component parameters (no convergence clause there)",
    "C01": "case = one coupled solve (4 coarsenings x 9 relaxations x 8 solvers x preconditioning side through the run-time interface, tolerances 1e-3..1e-9, budgets 1..100, restart/L/s parameters, zero/random/large initial guess) in a simulated world (nt 1..32, seeded schedule, dirtied heap, optional warm-up solve on the same object); oracle: independent long-double residual of the returned x from the caller's arrays (preconditioned with the same object for left preconditioning) vs the reported one, iteration budget, non-finite outcomes reported as such; 45% of the cases are the narrow model family (isotropic grid diffusion, contrast <= 8, forced multilevel, default parameters) where every Krylov combination must reach 1e-8 in < 100 iterations and Richardson must converge; non-trivial = >=1 iteration; distinct by hash(matrix, configuration, nt, seeds); a fifth of the non-model cases are complex (Hermitian or not) or 2x2 block valued systems, half of them vary further component parameters by seed (varied_parameter_worlds)",
    "C02": "case = (SPD M-matrix from grid1d/2d/3d or random graph, n 8..300, coarsening x relaxation through the run-time interface, ncycle 1|2, npre=npost 1..3, pre_cycles 1|2, coarse_enough, max_levels, direct_coarse, nt, schedule); B is extracted by n applications to unit vectors in shuffled order interleaved with applications to random / 1e200 / zero / NaN / Inf vectors, then every column once more; oracles: both extractions bitwise equal, linearity on random pairs, B(2^k A) = 2^-k B(A) bitwise (not ILUT), and for symmetric smoothers B=B^T, lambda_min(B)>0, rho(I-BA)<1 by Eigen; non-trivial = >=2 levels and n>=8; distinct by hash(matrix, configuration, application order seed)",
    "C06": "case = (smoother in damped_jacobi|gauss_seidel|spai0|spai1|chebyshev|ilu0|iluk|ilup|ilut with drawn parameters, matrix: M-matrix / convection-diffusion / structurally non-symmetric / disconnected / positive off-diagonal family or tridiagonal / arrow, rows sorted or diagonal-first, scalar or 2x2 non-commuting block values, nt 1..32 (>=4 takes the level-scheduled paths), schedule); each case runs under two schedules; oracles: parallel level-scheduled solve == serial (bitwise for Gauss-Seidel, rounding for ILU), schedule independence, exact solution is a fixed point, closed formulas (Jacobi, Gauss-Seidel forward/backward, SPAI-0), (LU)_ij = a_ij on the pattern of A via extracted M (n<=40, Eigen), exact inverse on tridiagonal/arrow and for ILU(k>n), (LU)_ij = a_ij on the symbolic pattern of A^(k+1) for ILUP, SPAI-1 normal equations and pattern, Chebyshev sweep affine about the solution and equal to the degree-d Chebyshev polynomial q(A) e for the Gershgorin interval [lower*hi, higher*hi] (dense matrix recurrence, n<=48, scaled and unscaled), apply() of every smoother equals the sweep(s) from x = 0 (without the damping for Jacobi / ILU); non-trivial = n>=3; distinct by hash(matrix, smoother, parameters, nt)",
    "C07": "case = (value type float|double|long double|complex|2x2 block or backend block_crs|builtin_hybrid|Eigen, shape incl. 0 rows, rectangular, sizes not divisible by the block size, coefficients in {0,1,-1,2,-3}, output poisoned with NaN/+Inf/-Inf wherever its coefficient is zero, nt 1..32, schedule); primitives spmv, residual, axpby, axpbypcz, vmul, lin_comb (alpha zero and non-zero), copy, clear, inner_product (conjugate-linear in the second argument) on scalar-like and on 2x2 block vectors (vmul with a block diagonal), scalar vectors in place of block vectors; integer-valued data so that the formula is exact in every type and equality is exact; non-trivial = n>=1; distinct by hash(seeds, type, shape, nt, coefficients)",
    "C08": "case = (kernel in transpose|product|sum|scale+sort_rows|diagonal|pointwise_matrix|copy/convert constructors|gershgorin|power method|complex transpose+product, shapes incl. 0 rows / empty rows / rectangular, integer-valued entries so that the dense model is exact, sorted or unsorted rows where permitted, nt 1..32 (<=16 marker-based, >=17 row-merge SpGEMM; every static chunking), schedule strategy); oracle: dense exact model, well-formed CRS, no duplicates for sorted inputs, Gershgorin >= rho(A) and power estimate <= sigma_max via Eigen (n<=60); non-trivial = >=2 rows; distinct by hash(matrix seed, shapes, kernel, nt, flags); product additionally through direct spgemm_saad / spgemm_rmerge calls at every nt; complex product against an exact model; block_matrix adapter / unblock_matrix for 2x2..4x4 blocks",
    "C03": "script = construct amg<recorder<coarsening>, recording spai0> (4 coarsenings, eps_strong/over_interp/relax/trunc/block_size varied, coarse_enough 1..3000, max_levels, direct_coarse, nt in {1,2,5,16 | 17,24,32} i.e. both SpGEMM algorithms) on a generated square matrix, then 1..8 rebuild() calls with perturbed / power-of-two scaled / sign-flipped / stronger-diagonal / original matrices and wrong-sized ones; invariants per level: A_c = R*A*P*float(1/over_interp) against a dense long-double model with an entrywise rounding bound, R = P^T bitwise (not emin), sizes strictly decrease, coarsest level direct iff <= coarse_enough and direct_coarse; per rebuild: P/R unchanged, coarse operators Galerkin again, action on probe vectors bitwise equal to a fresh amg<replayer<coarsening>> built from A' with the recorded P/R, rebuild(A0) restores the original action; non-trivial = >=2 levels and >=1 rebuild that changes the matrix; distinct by hash(matrix, configuration, script, SpGEMM algorithm); a fifth of the scripts are complex or 2x2-block valued hierarchies (R = P^H entrywise, Galerkin in the value type's algebra, one rebuild)",
    "C15": "script = 2..12 operations on ONE solver object (make_solver<amg|relaxation, run-time solver>, all 9 solver types, both preconditioning sides, restart lengths 2..30) out of solve / solve with alternative matrix / precond.apply / rebuild and failing variants (zero, NaN, Inf, overflowing right-hand sides or guesses, zero alternative matrix, maxiter 1..4, preconditioner wrapper that throws / writes NaN / writes Inf at its k-th call); model: a freshly constructed object (rebuilds replayed) executes the same single operation, results compared bitwise incl. exception type; non-trivial = >=2 operations; distinct by hash(matrix, script, configuration); object types: make_solver<amg>, make_solver<relaxation>, deflated_solver<amg> (1-2 vectors); additional operation outer_apply; 40% of the scripts vary component parameters by seed",
    "C19": "case = (format mm_sparse|mm_dense|bin_crs|bin_dense, value type double|float|complex|integer, index type, shape, row range, mode); modes: fault-free round trip (full + row range, bitwise vs the written model, symmetric storage), explicit fault ops on the image (truncate/flip/set/zero_tail/drop_line/dup_line, 1-3 per case, biased to banner/size line/index fields/ptr section), exhaustive truncation sweep of one small image (every byte offset), value-kind and storage-kind mismatch, corrupted banner keyword, inconsistent size fields; evaluations counts cases (a truncation sweep is one case with one read per byte offset, reads are in counters.damaged_reads); non-trivial = image actually damaged / non-empty matrix; distinct by hash(image bytes, ops, range); size-line fields moved by one (valid-or-throws), crs_size / dense_size / mm_reader::is_* queries in the round trip",
    "C10": "world = (valid input incl. 1x1/diagonal/disconnected/positive-offdiagonal/Dirichlet-row/n<coarse_enough/max_levels=1, kind in amg|relaxation-as-preconditioner|zero-copy amg|skyline_lu, run-time configuration, nt, pre-history of 0-3 unrelated solves); each world is executed under 4 simulated heaps (clean + 3 drawn from fill 00/ff/aa/snan/random x LIFO recycling x address shift) plus a ledger pass, and once per world under ASan+UBSan in the asan stage; non-trivial = degenerate input or >=2 levels; distinct by hash(matrix, configuration); half of the worlds vary the component parameters by seed (varied_parameter_worlds)",
    "C09": "world = (component out of vector ops, inner product, product, structural kernels, spectral radius, Gauss-Seidel, ILU solves, hierarchy (4 coarsenings, near-nullspace vectors), full solve through the run-time interface, block adapters, tentative_prolongation; matrix family/size/seed; nt 1..32; schedule strategy+seed); each case runs a reference world (nt=1 or 17, canonical), the world under test and a second schedule; plain stage: scheduling points are forks, barriers, critical sections, singles; trace stage: additionally every instrumented memory access inside a parallel region is a seeded preemption point and an event for the happens-before conflict detector, candidates are confirmed by a directed re-run with the two accesses in the opposite order; non-trivial = nt>=2, >=1 deviation from the canonical schedule taken, >=2 rows; distinct by hash(matrix, component, nt, deviation list, configuration); 35% of the Gauss-Seidel / ILU cases use an enumerated 3x3..5x5 sparsity pattern (drawn in quick, walked by run index in thorough); 40% of the solve cases vary component parameters",
}

if __name__ == "__main__":
    sys.exit(main())
