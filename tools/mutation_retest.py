#!/usr/bin/env python3
"""Re-tests the survivors of mutation_sweep.py with a larger budget (development tool).
usage: mutation_retest.py <mutation_sweep.json> <out.json> [--secs S] [--procs P] [--lanes L]"""
import sys, os, json, subprocess, shutil, time, threading, queue, argparse
sys.path.insert(0, os.path.dirname(os.path.abspath(__file__)))
import mutation_sweep as ms
ROOT = ms.ROOT

def run_many(exe, secs, procs, tmpd):
    res = [None] * procs
    def one(k):
        t0 = time.time(); frm = k
        while time.time() - t0 < secs:
            p = subprocess.run([exe, "--seed", "99", "--from", str(frm), "--stride", str(procs), "--count", "100000000", "--time", str(max(1.0, secs - (time.time() - t0))),
                                "--known", os.path.join(ROOT, "known_findings.json"), "--replay-dir", tmpd, "--no-shrink"], stdout=subprocess.PIPE, stderr=subprocess.DEVNULL, cwd=ROOT)
            out = p.stdout.decode("utf-8", "replace"); last = frm
            for l in out.splitlines():
                if l.startswith("V "):
                    try: j = json.loads(l[2:]); res[k] = "V " + j.get("oracle", "") + "|" + str(j.get("sig", {}).get("clause", "")); return
                    except Exception: res[k] = "V"; return
                if l.startswith("X "): res[k] = "crash"; return
                if l.startswith("E "): res[k] = "nondeterministic"; return
                if l.startswith("b "):
                    try: last = int(l[2:])
                    except Exception: pass
            if p.returncode == 3: frm = last + procs; continue
            if p.returncode not in (0, 1, 2): res[k] = "crash rc=%d" % p.returncode
            return
    ths = [threading.Thread(target=one, args=(k,)) for k in range(procs)]
    for t in ths: t.start()
    for t in ths: t.join()
    for r in res:
        if r: return r
    return None

def lane(k, q, out, secs, procs, lock):
    base = "/tmp/msweep/rlane%d" % k; repo = base + "/repo"; bld = base + "/build"; tmpd = base + "/replays"
    shutil.rmtree(base, ignore_errors=True); os.makedirs(repo); os.makedirs(tmpd)
    shutil.copytree("/repo/amgcl", repo + "/amgcl")
    while True:
        try: rec = q.get_nowait()
        except queue.Empty: return
        target = repo + "/" + rec["file"]; lines = open("/repo/" + rec["file"]).read().split("\n")
        mut = list(lines); li = rec["line"] - 1
        # reconstruct the mutant line: the sweep stored it stripped; re-indent
        ind = lines[li][:len(lines[li]) - len(lines[li].lstrip())]
        full = rec.get("mutant_full")
        mut[li] = full if full is not None else (ind + rec["mutant"] if rec["mutant"] else "")
        open(target, "w").write("\n".join(mut))
        verdict = "survived"; by = ""
        for pid in rec["checks"]:
            for b in ms.BIN[pid]:
                exe = "%s/plain/%s" % (bld, b)
                mk = subprocess.run(["make", "-C", ROOT, "REPO=" + repo, "B=" + bld, exe], stdout=subprocess.PIPE, stderr=subprocess.STDOUT)
                if mk.returncode != 0: verdict = "nocompile"; break
                r = run_many(exe, secs, procs, tmpd)
                if r: verdict = "killed"; by = "%s: %s" % (pid, r); break
            if verdict != "survived": break
        open(target, "w").write("\n".join(lines))
        r2 = dict(rec, verdict=verdict, by=by)
        with lock: out.append(r2); print(json.dumps(r2), flush=True)

def main():
    ap = argparse.ArgumentParser(); ap.add_argument("inp"); ap.add_argument("outp"); ap.add_argument("--secs", type=float, default=40); ap.add_argument("--procs", type=int, default=4); ap.add_argument("--lanes", type=int, default=4)
    a = ap.parse_args()
    recs = [r for r in json.load(open(a.inp)) if r["verdict"] == "survived" and len(r["orig"]) < 160 and len(r["mutant"]) < 160]
    q = queue.Queue()
    for r in recs: q.put(r)
    out = []; lock = threading.Lock()
    ths = [threading.Thread(target=lane, args=(k, q, out, a.secs, a.procs, lock)) for k in range(a.lanes)]
    for t in ths: t.start()
    for t in ths: t.join()
    json.dump(out, open(a.outp, "w"), indent=1)
    print("# retested %d: killed %d, still surviving %d" % (len(out), sum(r["verdict"] == "killed" for r in out), sum(r["verdict"] == "survived" for r in out)))
    shutil.rmtree("/tmp/msweep", ignore_errors=True)

if __name__ == "__main__":
    main()
