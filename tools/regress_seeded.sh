#!/bin/bash
# usage: tools/regress_seeded.sh [seconds] [ids...]  -- every seeded change against the check of its property; prints caught/MISSED per change
T="${1:-40}"; shift
cd /verif || exit 2
IDS="${@:-$(ls seeded)}"
for m in $IDS; do
  P=$(python3 -c "import json;j=json.load(open('seeded/$m/meta.json'));print(j.get('detected_by_check', j['property']))")
  OBS=$(python3 -c "import json;print(json.load(open('seeded/$m/meta.json')).get('obsolete_after',''))")
  if [ -n "$OBS" ]; then echo "$m obsolete after $OBS (see meta.json)"; continue; fi
  PATCH=/verif/seeded/$m/patch.diff; [ -f /verif/seeded/$m/patch_for_9f32686.diff ] && PATCH=/verif/seeded/$m/patch_for_9f32686.diff
  tools/try_mutation.sh $PATCH $P $T > /tmp/regress_$m.log 2>&1
  rc=$?
  if [ $rc -eq 1 ]; then echo "$m caught $(grep -m1 'oracle=' /tmp/regress_$m.log | sed 's/^ *[0-9]* *//' | cut -c1-120)"; else echo "$m MISSED rc=$rc $(tail -1 /tmp/regress_$m.log | cut -c1-160)"; fi
done
