#!/bin/bash
# usage: tools/regress_seeded.sh [seconds] [ids...]  -- every seeded change against the check of its property; prints caught/MISSED per change
T="${1:-40}"; shift
cd /verif || exit 2
IDS="${@:-$(ls seeded)}"
for m in $IDS; do
  P=$(python3 -c "import json;print(json.load(open('seeded/$m/meta.json'))['property'])")
  tools/try_mutation.sh /verif/seeded/$m/patch.diff $P $T > /tmp/regress_$m.log 2>&1
  rc=$?
  if [ $rc -eq 1 ]; then echo "$m caught $(grep -m1 'oracle=' /tmp/regress_$m.log | sed 's/^ *[0-9]* *//' | cut -c1-120)"; else echo "$m MISSED rc=$rc $(tail -1 /tmp/regress_$m.log | cut -c1-160)"; fi
done
