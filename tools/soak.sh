#!/bin/bash
# usage: tools/soak.sh <seed> [ids...]   -- runs every quick check with VERIF_SEED=<seed> on the current tree, summary to /tmp/soak_<seed>.log
# (development aid: rare false alarms show up under other seeds than the default one)
S="$1"; shift; IDS="${@:-C01 C02 C03 C06 C07 C08 C09 C10 C11 C12 C15 C19}"
cd /verif || exit 2
: > /tmp/soak_$S.log
for p in $IDS; do
  VERIF_SEED=$S python3 tools/run_check.py $p --tier quick --evidence /tmp/soak_ev_$p.json > /tmp/soak_${S}_$p.out 2>&1
  echo "$p rc=$? $(tail -1 /tmp/soak_${S}_$p.out)" >> /tmp/soak_$S.log
  grep -A3 "^VIOLATION\|^SIMULATOR\|^NOTE" /tmp/soak_${S}_$p.out | cut -c1-600 >> /tmp/soak_$S.log
done
# the runner clears replays of its own check only; remove what the soak produced
git -C /verif status --short replays | awk '{print $2}' | xargs -r rm -f
