// C08 — sparse matrix kernels equal their dense definitions, for every thread count / chunking / schedule.
// Each kernel runs inside a simulated world (nt 1..32 selects either SpGEMM algorithm and every static chunking,
// seeded schedule, dirtied heap) and is compared with a dense exact model (integer-valued inputs: exact).
#include "common.hpp"
#include <Eigen/Dense>
#include <Eigen/Eigenvalues>
#include <complex>
#include <amgcl/value_type/complex.hpp>
#include <amgcl/value_type/static_matrix.hpp>
#include <amgcl/detail/spgemm.hpp>
#include <amgcl/adapter/block_matrix.hpp>
#include "harness_main.hpp"

const char *CHECK_ID = "C08";
using namespace cm;
using hz::Plan; using hz::Result; using hz::Violation;
namespace be = amgcl::backend;

enum Kern { K_TRANSPOSE, K_PRODUCT, K_SUM, K_SCALE_SORT, K_DIAGONAL, K_POINTWISE, K_COPY, K_GERSHGORIN, K_POWER, K_COMPLEX, K_BLOCK, K_BLOCK_ADAPTER, NKERN };
static const char *kern_names[] = { "transpose", "product", "sum", "scale_sort_rows", "diagonal", "pointwise_matrix", "crs_copy_convert", "gershgorin", "power_method", "complex_kernels", "block_valued_kernels", "block_matrix_adapter" };

typedef std::map<std::pair<long,long>, double> Entries;
template <class V, class C, class P> static Entries entries(const be::crs<V,C,P> &M) { Entries e; for (size_t i = 0; i < M.nrows; ++i) for (P j = M.ptr[i]; j < M.ptr[i+1]; ++j) e[std::make_pair((long)i, (long)M.col[j])] += (double)M.val[j]; return e; }
static Entries entries(const gen::Csr &M) { Entries e; for (long i = 0; i < M.n; ++i) for (ptrdiff_t j = M.ptr[i]; j < M.ptr[i+1]; ++j) e[std::make_pair(i, (long)M.col[j])] += M.val[j]; return e; }

// compare a result with the model; structural zeros of the model may or may not be stored, stored entries must match exactly
static std::string same_matrix(const Entries &got, const Entries &want, bool exact, double tol = 0) {
    for (Entries::const_iterator it = got.begin(); it != got.end(); ++it) {
        Entries::const_iterator w = want.find(it->first); double wv = w == want.end() ? 0.0 : w->second;
        if (exact ? it->second != wv : !(std::fabs(it->second - wv) <= tol)) return fmt("entry (%ld,%ld) = %.17g, definition gives %.17g", it->first.first, it->first.second, it->second, wv);
    }
    for (Entries::const_iterator it = want.begin(); it != want.end(); ++it) if (it->second != 0 && !got.count(it->first)) return fmt("entry (%ld,%ld) = %.17g of the definition is missing", it->first.first, it->first.second, it->second);
    return "";
}
template <class V, class C, class P> static bool has_duplicates(const be::crs<V,C,P> &M) { for (size_t i = 0; i < M.nrows; ++i) { std::set<long> s; for (P j = M.ptr[i]; j < M.ptr[i+1]; ++j) if (!s.insert((long)M.col[j]).second) return true; } return false; }
template <class V, class C, class P> static bool rows_sorted(const be::crs<V,C,P> &M) { for (size_t i = 0; i < M.nrows; ++i) for (P j = M.ptr[i] + 1; j < M.ptr[i+1]; ++j) if (M.col[j] <= M.col[j-1]) return false; return true; }


// block_matrix adapter (scalar CRS seen as b x b blocks) and unblock_matrix against the dense definition
template <int BS>
static void block_adapter_case(long n, long m, uint64_t ms, int density, Result &res, const std::function<Violation(const char*, const char*, const std::string&)> &sig) {
    typedef amgcl::static_matrix<double, BS, BS> BV;
    long nb = std::max<long>(1, n / BS + 1), mb = std::max<long>(1, m / BS + 1);
    gen::Csr A = gen::make_rect(nb * BS, mb * BS, ms, density, true, false);      // rows sorted: the adapter merges BS sorted rows
    auto M = to_crs(A);
    be::crs<BV> B(amgcl::adapter::block_matrix<BV>(*M));
    std::string wf = crs_wellformed(B, true); if (!wf.empty()) { res.fail(sig("wellformed", "block_matrix", wf)); return; }
    if (B.nrows != (size_t)nb || B.ncols != (size_t)mb) res.fail(sig("dense-definition", "block_matrix-shape", fmt("%zu x %zu blocks, expected %ld x %ld", B.nrows, B.ncols, nb, mb)));
    Entries a = entries(A), got; std::set<std::pair<long,long> > blocks_present, blocks_wanted;
    for (Entries::iterator it = a.begin(); it != a.end(); ++it) blocks_wanted.insert(std::make_pair(it->first.first / BS, it->first.second / BS));
    for (size_t ib = 0; ib < B.nrows; ++ib) for (ptrdiff_t j = B.ptr[ib]; j < B.ptr[ib+1]; ++j) { blocks_present.insert(std::make_pair((long)ib, (long)B.col[j])); for (int x = 0; x < BS; ++x) for (int y = 0; y < BS; ++y) if (B.val[j](x, y) != 0 || a.count(std::make_pair((long)ib * BS + x, (long)B.col[j] * BS + y))) got[std::make_pair((long)ib * BS + x, (long)B.col[j] * BS + y)] += B.val[j](x, y); }
    std::string e = same_matrix(got, a, true); if (!e.empty()) res.fail(sig("dense-definition", "block_matrix-values", fmt("block size %d: %s", BS, e.c_str())));
    if (blocks_present != blocks_wanted) res.fail(sig("dense-definition", "block_matrix-structure", fmt("block size %d: %zu blocks stored, %zu blocks contain an entry", BS, blocks_present.size(), blocks_wanted.size())));
    auto U = amgcl::adapter::unblock_matrix(B);
    wf = crs_wellformed(*U); if (!wf.empty()) { res.fail(sig("wellformed", "unblock_matrix", wf)); return; }
    if (U->nrows != (size_t)(nb * BS) || U->ncols != (size_t)(mb * BS)) res.fail(sig("dense-definition", "unblock_matrix-shape", "wrong shape"));
    e = same_matrix(entries(*U), a, true); if (!e.empty()) res.fail(sig("dense-definition", "unblock_matrix-values", fmt("block size %d: %s", BS, e.c_str())));
}

// enumerated small patterns: bit (i*m + j) of 'bits' says whether entry (i,j) is stored; values are dyadic rationals (exact products and sums)
static gen::Csr from_bits(long n, long m, uint64_t bits, uint64_t vseed, bool reversed) {
    static const double tbl[] = { 1, -1, 2, 0.5, -3, 0.25, 5, -0.75 };
    gen::Csr A; A.n = n; A.m = m; A.ptr.push_back(0);
    for (long i = 0; i < n; ++i) {
        if (!reversed) { for (long j = 0; j < m; ++j) if ((bits >> (i * m + j)) & 1) { A.col.push_back(j); A.val.push_back(tbl[(vseed + i * 7 + j * 13) % 8]); } }
        else { for (long j = m - 1; j >= 0; --j) if ((bits >> (i * m + j)) & 1) { A.col.push_back(j); A.val.push_back(tbl[(vseed + i * 7 + j * 13) % 8]); } }
        A.ptr.push_back((ptrdiff_t)A.col.size());
    }
    return A;
}

Plan generate(uint64_t seed, uint64_t run, bool thorough) {
    sim::rng r(seed, "world", run);
    Plan p;
    int k = (int)r.below(NKERN); if (r.chance(0.25)) k = K_PRODUCT; if (r.chance(0.1)) k = K_POINTWISE;
    p.set("kernel", k, k);
    double u = r.unit();
    long n = u < 0.5 ? r.range(0, 6) : u < 0.9 ? r.range(3, 40) : r.range(20, thorough ? 300 : 120);
    long m = u < 0.5 ? r.range(1, 6) : u < 0.9 ? r.range(1, 40) : r.range(20, thorough ? 300 : 120);
    p.set("n", n, 0); p.set("m", m, 1); p.set("k", r.range(1, u < 0.5 ? 6 : 40), 1);
    p.set("density", r.range(0, u < 0.5 ? 90 : 40), 0);
    p.set("mseed", (long)(r.next() >> 16), 0);
    p.set("unsorted", r.range(0, 1), 0);
    p.set("sortflag", r.range(0, 1), 0);
    p.set("bs", r.range(2, 4), 2);
    p.set("alpha", r.range(-3, 3), 0); p.set("beta", r.range(-3, 3), 0);
    p.set("power_iters", r.range(1, 12), 1);
    p.set("nt", draw_nt(r, 1, 32), 1);
    draw_schedule(r, p.sched, (int)p.get("nt"));
    // the quantifier's "exhaustively over all patterns up to 3x3 / 4x4": enumerated pattern pairs with exact dyadic values.  Quick tier:
    // drawn (shapes up to 4x4); thorough tier: a fifth of the runs walk all 2^18 pairs of 3x3 patterns by run index for the product
    // (thread counts on both sides of the SpGEMM switch), all 2^16 4x4 patterns for the transpose, pairs of 3x3 patterns for the sum
    if (thorough && r.chance(0.2)) {
        int ek = (run >> 21) % 4 == 3 ? ((run >> 23) & 1 ? K_SUM : K_TRANSPOSE) : K_PRODUCT;
        p.set("kernel", ek, ek); p.set("enum", 1, 1);
        static const long ents[] = { 1, 2, 3, 4, 17, 18, 32, 5 };
        if (ek == K_TRANSPOSE) { p.set("n", 4, 0); p.set("m", 4, 1); p.set("abits", (long)(run & 0xffff), 0); p.set("bbits", 0, 0); }
        else { p.set("n", 3, 0); p.set("m", 3, 1); p.set("k", 3, 1); p.set("abits", (long)(run & 511), 0); p.set("bbits", (long)((run >> 9) & 511), 0); }
        p.set("nt", ents[(run >> 18) & 7], 1);
        draw_schedule(r, p.sched, (int)p.get("nt"));
    } else if ((k == K_PRODUCT || k == K_TRANSPOSE || k == K_SUM) && r.chance(0.15)) {
        long en = r.range(1, 4), em = r.range(1, 4), ekk = r.range(1, 4);
        p.set("enum", 1, 1); p.set("n", en, 0); p.set("m", em, 1); p.set("k", ekk, 1);
        p.set("abits", (long)(r.next() & 0xffff), 0); p.set("bbits", (long)(r.next() & 0xffff), 0);
    }
    return p;
}

Result execute(const Plan &p) {
    Result res;
    int kern = (int)p.get("kernel"); int nt = (int)p.get("nt");
    long n = p.get("n"), m = p.get("m"), kk = p.get("k"); uint64_t ms = (uint64_t)p.get("mseed");
    bool unsorted = p.get("unsorted") != 0;
    auto sig = [&](const char *oracle, const char *clause, const std::string &detail) { Violation v; v.oracle = oracle; v.add("component", kern_names[kern]); v.add("clause", clause); v.add("spgemm", nt > 16 ? "rmerge" : "saad"); v.add("input", unsorted ? "unsorted" : "sorted"); v.detail = detail; return v; };
    std::string sample_extra;
    const bool en = p.get("enum", 0) != 0 && n >= 0 && n <= 4 && m >= 1 && m <= 4 && kk >= 1 && kk <= 4;
    const uint64_t abits = (uint64_t)p.get("abits", 0), bbits = (uint64_t)p.get("bbits", 0);
    if (en) res.counts["enumerated_small_pattern_worlds"]++;
    sim::RunStatus st = world(nt, p.sched, [&]() {
        try {
        switch (kern) {
        case K_TRANSPOSE: {
            gen::Csr A = en ? from_bits(n, m, abits, ms, unsorted) : gen::make_rect(n, m, ms, (int)p.get("density"), true, unsorted);
            auto M = to_crs(A); auto T = be::transpose(*M);
            std::string wf = crs_wellformed(*T); if (!wf.empty()) res.fail(sig("wellformed", "structure", wf));
            if (T->nrows != (size_t)m || T->ncols != (size_t)n) res.fail(sig("dense-definition", "shape", fmt("transpose is %zu x %zu", T->nrows, T->ncols)));
            Entries want; Entries a = entries(A); for (Entries::iterator it = a.begin(); it != a.end(); ++it) want[std::make_pair(it->first.second, it->first.first)] = it->second;
            std::string e = same_matrix(entries(*T), want, true); if (!e.empty()) res.fail(sig("dense-definition", "values", e));
            if (has_duplicates(*T)) res.fail(sig("wellformed", "duplicates", "duplicate column in a transposed row"));
            break; }
        case K_PRODUCT: {
            gen::Csr A = en ? from_bits(n, kk, abits, ms, unsorted) : gen::make_rect(n, kk, ms, (int)p.get("density"), true, unsorted), B = en ? from_bits(kk, m, bbits, ms + 3, unsorted) : gen::make_rect(kk, m, ms + 1, (int)p.get("density"), true, unsorted);
            auto Ma = to_crs(A), Mb = to_crs(B);
            auto Cm = be::product(*Ma, *Mb, p.get("sortflag") != 0);
            std::string wf = crs_wellformed(*Cm); if (!wf.empty()) { res.fail(sig("wellformed", "structure", wf)); break; }
            if (Cm->nrows != (size_t)n || Cm->ncols != (size_t)m) res.fail(sig("dense-definition", "shape", fmt("product is %zu x %zu, expected %ld x %ld", Cm->nrows, Cm->ncols, n, m)));
            Entries want; Entries a = entries(A), b = entries(B);
            for (Entries::iterator ia = a.begin(); ia != a.end(); ++ia) for (Entries::iterator ib = b.lower_bound(std::make_pair(ia->first.second, -1L)); ib != b.end() && ib->first.first == ia->first.second; ++ib) want[std::make_pair(ia->first.first, ib->first.second)] += ia->second * ib->second;
            std::string e = same_matrix(entries(*Cm), want, true); if (!e.empty()) res.fail(sig("dense-definition", "values", e));
            if (!unsorted && has_duplicates(*Cm)) res.fail(sig("wellformed", "duplicates", "duplicate column in a product row of row-sorted inputs"));
            if (p.get("sortflag") && nt <= 16 && !rows_sorted(*Cm)) res.fail(sig("wellformed", "sorted", "product(.., sort=true) returned an unsorted row"));
            if (nt > 16) res.counts["spgemm_rmerge_path"]++; else res.counts["spgemm_saad_path"]++;
            // both algorithms called directly, whatever the thread count selects: every team size / chunking for either
            for (int alg = 0; alg < 2; ++alg) {
                be::crs<double> D; if (alg == 0) be::spgemm_saad(*Ma, *Mb, D, p.get("sortflag") != 0); else be::spgemm_rmerge(*Ma, *Mb, D);
                const char *an = alg == 0 ? "spgemm_saad-direct" : "spgemm_rmerge-direct";
                std::string wf2 = crs_wellformed(D); if (!wf2.empty()) { res.fail(sig("wellformed", an, wf2)); continue; }
                if (D.nrows != (size_t)n || D.ncols != (size_t)m) res.fail(sig("dense-definition", an, fmt("product is %zu x %zu, expected %ld x %ld", D.nrows, D.ncols, n, m)));
                std::string e2 = same_matrix(entries(D), want, true); if (!e2.empty()) res.fail(sig("dense-definition", an, e2));
                if (!unsorted && has_duplicates(D)) res.fail(sig("wellformed", an, "duplicate column in a product row of row-sorted inputs"));
                if (alg == 0 && p.get("sortflag") && !rows_sorted(D)) res.fail(sig("wellformed", an, "spgemm_saad(.., sort=true) returned an unsorted row"));
                if (alg == 1 && !unsorted && !rows_sorted(D)) res.fail(sig("wellformed", an, "spgemm_rmerge returned an unsorted row for row-sorted inputs"));
            }
            res.counts["spgemm_direct_calls"] += 2;
            break; }
        case K_SUM: {
            gen::Csr A = en ? from_bits(n, m, abits, ms, unsorted) : gen::make_rect(n, m, ms, (int)p.get("density"), true, unsorted), B = en ? from_bits(n, m, bbits, ms + 3, unsorted) : gen::make_rect(n, m, ms + 1, (int)p.get("density"), true, unsorted);
            auto Ma = to_crs(A), Mb = to_crs(B); double al = (double)p.get("alpha") / 2, bt = (double)p.get("beta") / 2;
            auto S = be::sum(al, *Ma, bt, *Mb, p.get("sortflag") != 0);
            std::string wf = crs_wellformed(*S); if (!wf.empty()) { res.fail(sig("wellformed", "structure", wf)); break; }
            Entries want; Entries a = entries(A), b = entries(B);
            for (Entries::iterator it = a.begin(); it != a.end(); ++it) want[it->first] += al * it->second;
            for (Entries::iterator it = b.begin(); it != b.end(); ++it) want[it->first] += bt * it->second;
            std::string e = same_matrix(entries(*S), want, true); if (!e.empty()) res.fail(sig("dense-definition", "values", e));
            if (!unsorted && has_duplicates(*S)) res.fail(sig("wellformed", "duplicates", "duplicate column in a sum row of row-sorted inputs"));
            // every structural entry of either operand is present (the sum is structural)
            { Entries g = entries(*S); for (Entries::iterator it = a.begin(); it != a.end(); ++it) if (!g.count(it->first)) { res.fail(sig("dense-definition", "structure", fmt("entry (%ld,%ld) of A missing in the sum", it->first.first, it->first.second))); break; } }
            break; }
        case K_SCALE_SORT: {
            gen::Csr A = gen::make_rect(n, m, ms, (int)p.get("density"), true, true);
            auto M = to_crs(A); be::sort_rows(*M);
            std::string wf = crs_wellformed(*M, true); if (!wf.empty()) res.fail(sig("wellformed", "sort_rows", wf));
            std::string e = same_matrix(entries(*M), entries(A), true); if (!e.empty()) res.fail(sig("dense-definition", "sort_rows", e));
            double s = (double)p.get("alpha") / 4; be::scale(*M, s);
            Entries want = entries(A); for (Entries::iterator it = want.begin(); it != want.end(); ++it) it->second *= s;
            e = same_matrix(entries(*M), want, true); if (!e.empty()) res.fail(sig("dense-definition", "scale", e));
            if (M->nnz != A.nnz()) res.fail(sig("dense-definition", "scale-structure", "scale changed the number of stored entries"));
            break; }
        case K_DIAGONAL: {
            gen::Csr A = gen::make_matrix((int)(ms % gen::NFAMILY), std::max<long>(n, 1), ms, 1, 1, 1);
            if (unsorted) { sim::rng r(ms, "shuffle"); for (long i = 0; i < A.n; ++i) for (ptrdiff_t a = A.ptr[i+1] - 1; a > A.ptr[i]; --a) { ptrdiff_t b = A.ptr[i] + (ptrdiff_t)r.below(a - A.ptr[i] + 1); std::swap(A.col[a], A.col[b]); std::swap(A.val[a], A.val[b]); } }
            auto M = to_crs(A); auto d = be::diagonal(*M, false); auto di = be::diagonal(*M, true);
            for (long i = 0; i < A.n; ++i) { double want = 0; for (ptrdiff_t j = A.ptr[i]; j < A.ptr[i+1]; ++j) if (A.col[j] == i) want = A.val[j];
                if ((*d)[i] != want) { res.fail(sig("dense-definition", "diagonal", fmt("dia[%ld] = %.17g, a_ii = %.17g", i, (*d)[i], want))); break; }
                if ((*di)[i] != 1.0 / want) { res.fail(sig("dense-definition", "inverted-diagonal", fmt("dia[%ld] = %.17g, 1/a_ii = %.17g", i, (*di)[i], 1.0 / want))); break; } }
            break; }
        case K_POINTWISE: {
            long bs = p.get("bs"); long nb = std::max<long>(1, n / bs + 1), mb = std::max<long>(1, m / bs + 1);
            gen::Csr A = gen::make_rect(nb * bs, mb * bs, ms, (int)p.get("density"), true, false);
            auto M = to_crs(A); auto Pw = be::pointwise_matrix(*M, (unsigned)bs);
            std::string wf = crs_wellformed(*Pw, true); if (!wf.empty()) { res.fail(sig("wellformed", "structure", wf)); break; }
            Entries want; Entries a = entries(A);
            for (Entries::iterator it = a.begin(); it != a.end(); ++it) { std::pair<long,long> b(it->first.first / bs, it->first.second / bs); double v = std::fabs(it->second); Entries::iterator w = want.find(b); if (w == want.end()) want[b] = v; else w->second = std::max(w->second, v); }
            std::string e = same_matrix(entries(*Pw), want, true); if (!e.empty()) res.fail(sig("dense-definition", "largest-norm-in-block", fmt("block size %ld: %s", bs, e.c_str())));
            if (Pw->nrows != (size_t)nb || Pw->ncols != (size_t)mb) res.fail(sig("dense-definition", "shape", "wrong pointwise shape"));
            break; }
        case K_COPY: {
            gen::Csr A = gen::make_rect(n, n, ms, (int)p.get("density"), true, unsorted);
            auto M = to_crs(A);
            be::crs<double> C1(*M);
            if (crs_digest(C1) != crs_digest(*M)) res.fail(sig("dense-definition", "copy-constructor", "copy differs from the source"));
            be::crs<double> C2(A.tie());
            if (crs_digest(C2) != crs_digest(*M)) res.fail(sig("dense-definition", "tuple-constructor", "matrix built from the tuple adapter differs"));
            be::crs<float, int, int> C3(*M);
            { std::string wf = crs_wellformed(C3); if (!wf.empty()) res.fail(sig("wellformed", "convert-constructor", wf)); std::string e = same_matrix(entries(C3), entries(A), true); if (!e.empty()) res.fail(sig("dense-definition", "convert-constructor", e)); }
            be::crs<double> C4(std::move(C1));
            if (crs_digest(C4) != crs_digest(*M)) res.fail(sig("dense-definition", "move-constructor", "moved matrix differs"));
            be::crs<double> C5((size_t)A.n, (size_t)A.m, A.ptr, A.col, A.val);
            if (crs_digest(C5) != crs_digest(*M)) res.fail(sig("dense-definition", "range-constructor", "matrix built from ranges differs"));
            break; }
        case K_GERSHGORIN: case K_POWER: {
            long nn = std::min<long>(std::max<long>(n, 1), 60);
            gen::Csr A = gen::make_matrix((int)(ms % gen::NFAMILY), nn, ms, 1, 1, 0);
            if ((ms >> 8) % 3 == 0) for (size_t j = 0; j < A.val.size(); ++j) if ((j * 2654435761u) % 5 == 0) A.val[j] = -A.val[j];   // indefinite / sign-mixed variants
            auto M = to_crs(A); nn = A.n;
            Eigen::MatrixXd D = Eigen::MatrixXd::Zero(nn, nn), Ds = D;
            for (long i = 0; i < nn; ++i) { double dia = 1; for (ptrdiff_t j = A.ptr[i]; j < A.ptr[i+1]; ++j) if (A.col[j] == i) dia = A.val[j];
                for (ptrdiff_t j = A.ptr[i]; j < A.ptr[i+1]; ++j) { D(i, A.col[j]) += A.val[j]; Ds(i, A.col[j]) += A.val[j] / dia; } }
            if (kern == K_GERSHGORIN) {
                double g = be::spectral_radius<false>(*M, 0), gs = be::spectral_radius<true>(*M, 0);
                double want = 0, wants = 0;
                for (long i = 0; i < nn; ++i) { double s = 0, dia = 1; for (ptrdiff_t j = A.ptr[i]; j < A.ptr[i+1]; ++j) { s += std::fabs(A.val[j]); if (A.col[j] == i) dia = A.val[j]; } want = std::max(want, s); wants = std::max(wants, std::fabs(1 / dia) * s); }
                if (!(std::fabs(g - want) <= 1e-13 * want)) res.fail(sig("dense-definition", "gershgorin-value", fmt("estimate %.17g, max row sum %.17g", g, want)));
                if (!(std::fabs(gs - wants) <= 1e-13 * wants)) res.fail(sig("dense-definition", "gershgorin-scaled-value", fmt("estimate %.17g, max scaled row sum %.17g", gs, wants)));
                double rho = D.eigenvalues().cwiseAbs().maxCoeff(), rhos = Ds.eigenvalues().cwiseAbs().maxCoeff();
                if (!(g >= rho * (1 - 1e-10))) res.fail(sig("upper-bound", "gershgorin>=rho", fmt("estimate %.17g < spectral radius %.17g", g, rho)));
                if (!(gs >= rhos * (1 - 1e-10))) res.fail(sig("upper-bound", "gershgorin-scaled>=rho", fmt("estimate %.17g < spectral radius %.17g", gs, rhos)));
            } else {
                int it = (int)p.get("power_iters");
                double pw = be::spectral_radius<false>(*M, it), pws = be::spectral_radius<true>(*M, it);
                double smax = Eigen::JacobiSVD<Eigen::MatrixXd>(D).singularValues()(0), smaxs = Eigen::JacobiSVD<Eigen::MatrixXd>(Ds).singularValues()(0);
                if (!(pw <= smax * (1 + 1e-10)) || !(pw >= 0)) res.fail(sig("upper-bound", "power<=sigma_max", fmt("estimate %.17g > largest singular value %.17g (%d iterations)", pw, smax, it)));
                if (!(pws <= smaxs * (1 + 1e-10)) || !(pws >= 0)) res.fail(sig("upper-bound", "power-scaled<=sigma_max", fmt("estimate %.17g > largest singular value %.17g (%d iterations)", pws, smaxs, it)));
                res.counts["power_method_path"]++;
            }
            break; }
        case K_COMPLEX: {
            // conjugate transpose and product for complex values
            typedef std::complex<double> Cx;
            gen::Csr Ar = gen::make_rect(n, m, ms, (int)p.get("density"), true, unsorted), Ai = gen::make_rect(n, m, ms, (int)p.get("density"), true, unsorted);
            be::crs<Cx> A; A.set_size(n, m, false); for (long i = 0; i <= n; ++i) A.ptr[i] = Ar.ptr[i]; A.set_nonzeros(Ar.nnz());
            sim::rng r(ms, "imag"); for (size_t j = 0; j < Ar.nnz(); ++j) { A.col[j] = Ar.col[j]; A.val[j] = Cx(Ar.val[j], (double)r.range(-3, 3)); }
            auto T = be::transpose(A);
            std::string wf = crs_wellformed(*T); if (!wf.empty()) { res.fail(sig("wellformed", "structure", wf)); break; }
            std::map<std::pair<long,long>, Cx> want; for (long i = 0; i < n; ++i) for (ptrdiff_t j = A.ptr[i]; j < A.ptr[i+1]; ++j) want[std::make_pair((long)A.col[j], i)] = std::conj(A.val[j]);
            size_t cnt = 0; bool bad = false;
            for (size_t i = 0; i < T->nrows && !bad; ++i) for (ptrdiff_t j = T->ptr[i]; j < T->ptr[i+1]; ++j, ++cnt) { auto w = want.find(std::make_pair((long)i, (long)T->col[j])); if (w == want.end() || w->second != T->val[j]) { bad = true; res.fail(sig("dense-definition", "conjugate-transpose", fmt("entry (%zu,%ld) is not the conjugate of the source entry", i, (long)T->col[j]))); break; } }
            if (!bad && cnt != want.size()) res.fail(sig("dense-definition", "conjugate-transpose", "entry count differs"));
            // A * A^H against the exact complex model (integer parts: exact), Hermitian with real non-negative diagonal
            auto G = be::product(A, *T, true);
            { std::map<std::pair<long,long>, Cx> wg, gg; for (long i = 0; i < n; ++i) for (ptrdiff_t j = A.ptr[i]; j < A.ptr[i+1]; ++j) for (ptrdiff_t q = T->ptr[A.col[j]]; q < T->ptr[A.col[j]+1]; ++q) wg[std::make_pair(i, (long)T->col[q])] += A.val[j] * T->val[q];
              for (size_t i = 0; i < G->nrows; ++i) for (ptrdiff_t j = G->ptr[i]; j < G->ptr[i+1]; ++j) gg[std::make_pair((long)i, (long)G->col[j])] += G->val[j];
              bool okp = true; for (auto &e : gg) { auto w2 = wg.find(e.first); Cx wv = w2 == wg.end() ? Cx(0, 0) : w2->second; if (e.second != wv) { okp = false; res.fail(sig("dense-definition", "complex-product-values", fmt("(A A^H)(%ld,%ld) = %g%+gi, definition %g%+gi", e.first.first, e.first.second, e.second.real(), e.second.imag(), wv.real(), wv.imag()))); break; } }
              if (okp) for (auto &e : wg) if (e.second != Cx(0, 0) && !gg.count(e.first)) { res.fail(sig("dense-definition", "complex-product-values", fmt("entry (%ld,%ld) of the definition is missing", e.first.first, e.first.second))); break; } }
            for (size_t i = 0; i < G->nrows; ++i) for (ptrdiff_t j = G->ptr[i]; j < G->ptr[i+1]; ++j) if ((size_t)G->col[j] == i && (G->val[j].imag() != 0 || G->val[j].real() < 0)) { res.fail(sig("dense-definition", "complex-product", fmt("(A A^H)(%zu,%zu) = %g%+gi", i, i, G->val[j].real(), G->val[j].imag()))); i = G->nrows; break; }
            break; }
        case K_BLOCK_ADAPTER: {
            std::function<Violation(const char*, const char*, const std::string&)> sg = sig;
            if (p.get("bs") == 3) block_adapter_case<3>(n, m, ms, (int)p.get("density"), res, sg); else if (p.get("bs") == 4) block_adapter_case<4>(n, m, ms, (int)p.get("density"), res, sg); else block_adapter_case<2>(n, m, ms, (int)p.get("density"), res, sg);
            break; }
        case K_BLOCK: {
            // 2x2 block values: transpose (adjoint blocks), product, scaled Gershgorin bound in block norms
            typedef amgcl::static_matrix<double,2,2> B;
            long nb = std::min<long>(std::max<long>(n, 1), 24);
            gen::Csr S = gen::make_matrix((int)(ms % 4 == 0 ? gen::F_GRAPH : ms % 4 == 1 ? gen::F_NONSYM_PATTERN : ms % 4 == 2 ? gen::F_GRID1D : gen::F_CONVDIFF), nb, ms, 0, 1, 1); nb = S.n;
            be::crs<B> A; A.set_size(nb, nb, false); for (long i = 0; i <= nb; ++i) A.ptr[i] = S.ptr[i]; A.set_nonzeros(S.nnz());
            sim::rng r(ms, "blocks");
            for (long i = 0; i < nb; ++i) for (ptrdiff_t j = S.ptr[i]; j < S.ptr[i+1]; ++j) { A.col[j] = S.col[j]; B b; for (int a = 0; a < 2; ++a) for (int c2 = 0; c2 < 2; ++c2) b(a, c2) = (double)r.range(-2, 2);
                if (S.col[j] == i) { b(0, 0) = (double)r.range(6, 12); b(1, 1) = (double)r.range(1, 3) * (r.chance(0.3) ? 16.0 : 1.0) + 6; }   // dominant, sometimes badly scaled diagonal blocks
                A.val[j] = b; }
            // some rows keep only their diagonal block (Dirichlet-like rows: the single-entry fast paths of the row-merge SpGEMM)
            if ((ms >> 5) % 3 == 0) { be::crs<B> A2; A2.set_size(nb, nb, true); for (long i = 0; i < nb; ++i) A2.ptr[i+1] = (i % 3 == 1) ? 1 : (A.ptr[i+1] - A.ptr[i]); A2.set_nonzeros(A2.scan_row_sizes());
                for (long i = 0; i < nb; ++i) { ptrdiff_t h = A2.ptr[i]; for (ptrdiff_t j = A.ptr[i]; j < A.ptr[i+1]; ++j) if (i % 3 != 1 || A.col[j] == i) { A2.col[h] = A.col[j]; A2.val[h] = A.val[j]; ++h; } }
                std::swap(A.nrows, A2.nrows); std::swap(A.ncols, A2.ncols); std::swap(A.nnz, A2.nnz); std::swap(A.ptr, A2.ptr); std::swap(A.col, A2.col); std::swap(A.val, A2.val); }
            // transpose: block (j,i) is the adjoint (transposed) block
            auto T = be::transpose(A);
            std::map<std::pair<long,long>, B> want; for (long i = 0; i < nb; ++i) for (ptrdiff_t j = A.ptr[i]; j < A.ptr[i+1]; ++j) want[std::make_pair((long)A.col[j], i)] = amgcl::math::adjoint(A.val[j]);
            for (size_t i = 0; i < T->nrows; ++i) for (ptrdiff_t j = T->ptr[i]; j < T->ptr[i+1]; ++j) { auto wv = want.find(std::make_pair((long)i, (long)T->col[j])); bool ok = wv != want.end(); if (ok) for (int a = 0; a < 2; ++a) for (int c2 = 0; c2 < 2; ++c2) if (T->val[j](a, c2) != wv->second(a, c2)) ok = false; if (!ok) { res.fail(sig("dense-definition", "block-adjoint-transpose", fmt("block (%zu,%ld)", i, (long)T->col[j]))); i = T->nrows; break; } }
            // blocks with complex entries: the transposed block is the conjugate transpose of the source block
            { typedef std::complex<double> Cx; typedef amgcl::static_matrix<Cx,2,2> CB;
              be::crs<CB> Ac; Ac.set_size(nb, nb, false); for (long i = 0; i <= nb; ++i) Ac.ptr[i] = A.ptr[i]; Ac.set_nonzeros(A.ptr[nb]);
              for (ptrdiff_t j = 0; j < A.ptr[nb]; ++j) { Ac.col[j] = A.col[j]; for (int a = 0; a < 2; ++a) for (int c2 = 0; c2 < 2; ++c2) Ac.val[j](a, c2) = Cx(A.val[j](a, c2), (double)r.range(-2, 2)); }
              auto Tc = be::transpose(Ac);
              std::map<std::pair<long,long>, CB> wc; for (long i = 0; i < nb; ++i) for (ptrdiff_t j = Ac.ptr[i]; j < Ac.ptr[i+1]; ++j) { CB h; for (int a = 0; a < 2; ++a) for (int c2 = 0; c2 < 2; ++c2) h(a, c2) = std::conj(Ac.val[j](c2, a)); wc[std::make_pair((long)Ac.col[j], i)] = h; }
              size_t cnt = 0; bool bad = false;
              for (size_t i = 0; i < Tc->nrows && !bad; ++i) for (ptrdiff_t j = Tc->ptr[i]; j < Tc->ptr[i+1]; ++j, ++cnt) { auto wv = wc.find(std::make_pair((long)i, (long)Tc->col[j])); bool ok = wv != wc.end(); if (ok) for (int a = 0; a < 2; ++a) for (int c2 = 0; c2 < 2; ++c2) if (Tc->val[j](a, c2) != wv->second(a, c2)) ok = false;
                  if (!ok) { bad = true; res.fail(sig("dense-definition", "complex-block-conjugate-transpose", fmt("block (%zu,%ld) is not the conjugate transpose of the source block", i, (long)Tc->col[j]))); break; } }
              if (!bad && cnt != wc.size()) res.fail(sig("dense-definition", "complex-block-conjugate-transpose", "block count differs")); }
            // product against the unblocked dense product
            auto P2 = be::product(A, A, true);
            Eigen::MatrixXd D = Eigen::MatrixXd::Zero(2 * nb, 2 * nb), Di = D;
            for (long i = 0; i < nb; ++i) for (ptrdiff_t j = A.ptr[i]; j < A.ptr[i+1]; ++j) for (int a = 0; a < 2; ++a) for (int c2 = 0; c2 < 2; ++c2) D(2 * i + a, 2 * A.col[j] + c2) = A.val[j](a, c2);
            Eigen::MatrixXd DD = D * D, G = Eigen::MatrixXd::Zero(2 * nb, 2 * nb);
            for (size_t i = 0; i < P2->nrows; ++i) for (ptrdiff_t j = P2->ptr[i]; j < P2->ptr[i+1]; ++j) for (int a = 0; a < 2; ++a) for (int c2 = 0; c2 < 2; ++c2) G(2 * i + a, 2 * P2->col[j] + c2) += P2->val[j](a, c2);
            if ((G - DD).cwiseAbs().maxCoeff() != 0) res.fail(sig("dense-definition", "block-product", "block product differs from the unblocked dense product"));
            // A * A^T: a single-block row now multiplies a different operand's row, so the block operand order matters
            { auto P3 = be::product(A, *T, true); Eigen::MatrixXd DT = D * D.transpose(), G3 = Eigen::MatrixXd::Zero(2 * nb, 2 * nb);
              for (size_t i = 0; i < P3->nrows; ++i) for (ptrdiff_t j = P3->ptr[i]; j < P3->ptr[i+1]; ++j) for (int a = 0; a < 2; ++a) for (int c2 = 0; c2 < 2; ++c2) G3(2 * i + a, 2 * P3->col[j] + c2) += P3->val[j](a, c2);
              if ((G3 - DT).cwiseAbs().maxCoeff() != 0) res.fail(sig("dense-definition", "block-product-AAt", "block product A*A^T differs from the unblocked dense product")); }
            // scaled Gershgorin: max_i ||D_i^-1|| * sum_j ||A_ij||  (block norms) and an upper bound of rho(D^-1 A)
            double g = be::spectral_radius<true>(A, 0), gu = be::spectral_radius<false>(A, 0), wantg = 0, wantu = 0;
            for (long i = 0; i < nb; ++i) { double sum = 0; B dia = amgcl::math::identity<B>(); for (ptrdiff_t j = A.ptr[i]; j < A.ptr[i+1]; ++j) { sum += amgcl::math::norm(A.val[j]); if (A.col[j] == i) dia = A.val[j]; }
                wantu = std::max(wantu, sum); wantg = std::max(wantg, sum * amgcl::math::norm(amgcl::math::inverse(dia)));
                Eigen::Matrix2d d2; for (int a = 0; a < 2; ++a) for (int c2 = 0; c2 < 2; ++c2) d2(a, c2) = dia(a, c2); Di.block(2 * i, 2 * i, 2, 2) = d2.inverse(); }
            if (!(std::fabs(g - wantg) <= 1e-12 * wantg)) res.fail(sig("dense-definition", "block-gershgorin-scaled-value", fmt("estimate %.17g, definition %.17g", g, wantg)));
            if (!(std::fabs(gu - wantu) <= 1e-12 * wantu)) res.fail(sig("dense-definition", "block-gershgorin-value", fmt("estimate %.17g, definition %.17g", gu, wantu)));
            double rho = (Di * D).eigenvalues().cwiseAbs().maxCoeff(), rhou = D.eigenvalues().cwiseAbs().maxCoeff();
            if (!(g >= rho * (1 - 1e-10))) res.fail(sig("upper-bound", "block-gershgorin-scaled>=rho", fmt("estimate %.17g < spectral radius %.17g", g, rho)));
            if (!(gu >= rhou * (1 - 1e-10))) res.fail(sig("upper-bound", "block-gershgorin>=rho", fmt("estimate %.17g < spectral radius %.17g", gu, rhou)));
            break; }
        }
        } catch (const std::exception &e) { res.fail(sig("no-exception", "kernel-threw", e.what())); }
    });
    res.absorb(st); res.deviations = st.deviations;
    if (st.status) res.fail(sig("world-terminates", "deadlock-or-budget", st.blocked));
    res.counts[std::string("kernel_") + kern_names[kern]]++;
    res.nontrivial = (n >= 2 || kern == K_POINTWISE) && (nt >= 2 || true);
    uint64_t key = sim::hash_combine(ms, (uint64_t)(kern * 1000003 + n * 10007 + m * 101 + kk)); key = sim::hash_combine(key, (uint64_t)(nt * 4 + p.get("unsorted") * 2 + p.get("sortflag"))); key = sim::hash_combine(key, (uint64_t)p.get("density") * 7 + p.get("bs")); if (en) key = sim::hash_combine(key, (abits << 20) ^ bbits ^ (1ull << 50));
    res.key = key; res.hash = sim::hash_combine(res.hash, key);
    js::Value s = js::Value::object();
    s.set("kernel", kern_names[kern]); s.set("n", n); s.set("m", m); s.set("k", kk); s.set("density_pct", p.get("density")); s.set("unsorted_rows", p.get("unsorted")); s.set("nt", nt);
    if (en) { s.set("enumerated_pattern", 1L); s.set("abits", (long)abits); s.set("bbits", (long)bbits); }
    s.set("spgemm", nt > 16 ? "rmerge" : "saad"); s.set("strategy", sim::strategy_name(p.sched.strategy)); s.set("deviations_taken", (long)st.deviations.size());
    res.sample = s;
    return res;
}
