// C10, second translation unit: block (2x2 static_matrix) and complex valued worlds.  Same contract as run_one() in c10.cpp:
// construct, apply, solve; everything that is observable goes into the output record, which must not depend on the heap.
#include "common.hpp"
#include <complex>
#include <amgcl/make_solver.hpp>
#include <amgcl/amg.hpp>
#include <amgcl/coarsening/runtime.hpp>
#include <amgcl/relaxation/runtime.hpp>
#include <amgcl/solver/runtime.hpp>
#include <amgcl/value_type/static_matrix.hpp>
#include <amgcl/value_type/complex.hpp>
#include <amgcl/adapter/block_matrix.hpp>
#include "c10.hpp"

using namespace cm;

template <class V, class Make>
static void run_valued(const hz::Plan &p, const boost::property_tree::ptree &prm, long n, Make make, const std::vector<double> &rhs, c10::Out &o) {
    namespace m = amgcl::math;
    typedef amgcl::backend::builtin<V> VB; typedef typename m::rhs_of<V>::type RV;
    typedef amgcl::make_solver< amgcl::amg<VB, amgcl::runtime::coarsening::wrapper, amgcl::runtime::relaxation::wrapper>, amgcl::runtime::solver::wrapper<VB> > VSolver;
    (void)p;
    try {
        auto Av = make();
        VSolver S(*Av, prm);
        { std::ostringstream os; os << S.precond(); o.text = os.str(); }
        const size_t nb = Av->nrows; const int B = (int)(sizeof(RV) / sizeof(double));
        std::vector<RV> f(nb), x(nb, m::zero<RV>()), u(nb, m::zero<RV>());
        for (size_t i = 0; i < nb; ++i) { double *d = reinterpret_cast<double*>(&f[i]); for (int k = 0; k < B; ++k) d[k] = rhs[(i * B + k) % (size_t)n]; }
        S.precond().apply(f, u);
        size_t it; double res; std::tie(it, res) = S(f, x);
        const double *pu = reinterpret_cast<const double*>(u.data()), *px = reinterpret_cast<const double*>(x.data());
        o.vals.insert(o.vals.end(), pu, pu + nb * B); o.vals.insert(o.vals.end(), px, px + nb * B);
        o.vals.push_back((double)it); o.vals.push_back(res);
    } catch (const std::exception &e) { o.exc = std::string("std::exception: ") + e.what(); }
    catch (...) { o.exc = "non-std exception"; }
}

namespace c10 {
void run_block_world(const hz::Plan &p, const boost::property_tree::ptree &prm, const gen::Csr &A0, const std::vector<double> &rhs, Out &o) {
    typedef amgcl::static_matrix<double,2,2> BV;
    gen::Csr A = A0;
    run_valued<BV>(p, prm, A.n, [&]() { auto As = to_crs(A); amgcl::backend::sort_rows(*As); return std::make_shared<amgcl::backend::crs<BV> >(amgcl::adapter::block_matrix<BV>(*As)); }, rhs, o);
}
void run_complex_world(const hz::Plan &p, const boost::property_tree::ptree &prm, const gen::Csr &A0, const std::vector<double> &rhs, Out &o) {
    typedef std::complex<double> CX;
    gen::Csr A = A0;
    run_valued<CX>(p, prm, A.n, [&]() { auto M = std::make_shared<amgcl::backend::crs<CX> >(); M->set_size(A.n, A.n, false); for (long i = 0; i <= A.n; ++i) M->ptr[i] = A.ptr[i]; M->set_nonzeros(A.nnz());
        for (long i = 0; i < A.n; ++i) for (ptrdiff_t j = A.ptr[i]; j < A.ptr[i+1]; ++j) { M->col[j] = A.col[j]; M->val[j] = CX(A.val[j], A.col[j] == i ? 0.0 : A.val[j] * (double)(((i * 7 + A.col[j] * 3) % 9) - 4) / 16.0); }
        return M; }, rhs, o);
}
}
