// C09 — results do not depend on the number of threads or their interleaving.
// Workload: one component of the library on a generated input; worlds: reference (nt=1 or serial form, canonical
// schedule), world under test (nt, seeded strategy), and a second schedule at the same nt.
#include "common.hpp"
#include <cstdarg>
#include <map>
#include <amgcl/make_solver.hpp>
#include <amgcl/amg.hpp>
#include <amgcl/coarsening/runtime.hpp>
#include <amgcl/relaxation/runtime.hpp>
#include <amgcl/solver/runtime.hpp>
#include <amgcl/relaxation/gauss_seidel.hpp>
#include <amgcl/relaxation/ilu0.hpp>
#include <amgcl/relaxation/iluk.hpp>
#include <amgcl/relaxation/ilup.hpp>
#include <amgcl/relaxation/ilut.hpp>
#include <amgcl/relaxation/spai0.hpp>
#include <amgcl/backend/block_crs.hpp>
#include <amgcl/adapter/block_matrix.hpp>
#include <amgcl/value_type/static_matrix.hpp>
#include <amgcl/reorder/cuthill_mckee.hpp>
#include <amgcl/coarsening/tentative_prolongation.hpp>
#ifdef AMGSIM_TRACE
#include "../sim/trace.hpp"
#endif
#include "harness_main.hpp"

const char *CHECK_ID = "C09";
using namespace cm;
using hz::Plan; using hz::Result; using hz::Violation;

enum Comp { C_VECOPS, C_INNER, C_PRODUCT, C_STRUCT, C_SPECTRAL, C_GS, C_ILU, C_HIER, C_SOLVE, C_BLOCK, C_TENTATIVE, NCOMP };
static const char *comp_name[] = { "vecops", "inner_product", "product", "struct_kernels", "spectral_radius", "gauss_seidel", "ilu_solve", "hierarchy", "solve", "block_adapters", "tentative_prolongation" };

// what a component run returns: named items, each bitwise-comparable (bits) plus values for tolerance comparison
struct Item { std::string name; std::vector<double> v; uint64_t extra; int cls; double scale; std::map<std::pair<long,long>,double> canon; bool is_matrix = false; };
enum { BITWISE = 0, ROUNDING = 1, TIDSEEDED = 2, SWITCHED = 3, SAME_NT_ONLY = 4, SKIP = 5, REDUCTION = 6 };
struct Output { std::vector<Item> items; std::string error;
    void add(const std::string &n, const std::vector<double> &v, int cls = BITWISE, uint64_t extra = 0, double scale = 0) { Item it; it.name = n; it.v = v; it.extra = extra; it.cls = cls; it.scale = scale; items.push_back(it); }
    void add1(const std::string &n, double v, int cls = BITWISE, double scale = 0) { add(n, std::vector<double>(1, v), cls, 0, scale); }
};

template <class V, class C, class P>
static void add_matrix(Output &o, const std::string &name, const amgcl::backend::crs<V,C,P> &M, int cls = BITWISE, bool sort_first = false) {
    // structure goes into 'extra' (always bitwise), values into v
    amgcl::backend::crs<V,C,P> S(M);
    if (sort_first) amgcl::backend::sort_rows(S);
    uint64_t h = sim::hash_combine(S.nrows, S.ncols);
    size_t nnz = S.nrows ? S.ptr[S.nrows] : 0;
    if (S.nrows) { h = sim::hash_bytes(S.ptr, (S.nrows + 1) * sizeof(P), h); h = sim::hash_bytes(S.col, nnz * sizeof(C), h); }
    std::vector<double> v(nnz * (sizeof(V) / sizeof(double)));
    if (nnz) std::memcpy(v.data(), S.val, nnz * sizeof(V));
    std::string wf = crs_wellformed(S);
    if (!wf.empty()) o.error = name + ": " + wf;
    o.add(name, v, cls, h, max_abs(v));
    if (cls == SWITCHED && wf.empty() && sizeof(V) == sizeof(double)) {
        // canonical form (duplicates merged) for comparisons across the SpGEMM switch
        Item &it = o.items.back(); it.is_matrix = true;
        const double *vals = (const double*)S.val;
        for (size_t i = 0; i < S.nrows; ++i) for (P j = S.ptr[i]; j < S.ptr[i+1]; ++j) it.canon[std::make_pair((long)i, (long)S.col[j])] += vals[j];
    }
}

static __attribute__((noinline)) void dirty_stack_small(int fill) {
    volatile unsigned char buf[96 * 1024];
    for (size_t i = 0; i < sizeof buf; i += 1) buf[i] = (unsigned char)fill;
    asm volatile("" ::: "memory");
}

struct World {
    int comp; gen::Csr A, B; std::vector<double> x, y, z; long sub; long k; int sort; int fam;
    long coarsening, relax, solver, coarse_enough, npre, ncycle, power_iters, maxiter, nullspace;
    const hz::Plan *vary = 0;
};

typedef amgcl::make_solver<
    amgcl::amg<DBackend, amgcl::runtime::coarsening::wrapper, amgcl::runtime::relaxation::wrapper>,
    amgcl::runtime::solver::wrapper<DBackend> > RtSolver;

static const char *coarsening_names[] = { "ruge_stuben", "aggregation", "smoothed_aggregation", "smoothed_aggr_emin" };
static const char *relax_names[] = { "gauss_seidel", "ilu0", "iluk", "ilup", "ilut", "damped_jacobi", "spai0", "spai1", "chebyshev" };
static const char *solver_names[] = { "cg", "bicgstab", "bicgstabl", "gmres", "lgmres", "fgmres", "idrs", "richardson" };

template <class P> static auto set_nullspace(P &c, const World &w, int) -> decltype(c.nullspace.cols, void()) {
    if (w.nullspace <= 0) return;
    const long n = w.A.n; c.nullspace.cols = (int)w.nullspace; c.nullspace.B.resize((size_t)n * w.nullspace);
    for (long i = 0; i < n; ++i) for (long k = 0; k < w.nullspace; ++k) c.nullspace.B[i * w.nullspace + k] = k == 0 ? 1.0 : std::pow((double)(i + 1) / n, (double)k);
}
template <class P> static void set_nullspace(P &, const World &, long) {}

template <template <class> class Coarsening>
static void hier_run(const World &w, Output &o, int cls) {
    typedef amgcl::amg<DBackend, recorder<Coarsening>::template type, amgcl::relaxation::spai0> AMG;
    typename AMG::params prm;
    prm.coarse_enough = (unsigned)w.coarse_enough; prm.npre = (unsigned)w.npre; prm.npost = (unsigned)w.npre; prm.ncycle = (unsigned)w.ncycle;
    if (w.ncycle > 1) prm.max_levels = 4;      // a W-cycle over a deep hierarchy costs 2^levels
    set_nullspace(prm.coarsening, w, 0);         // near-null-space vectors: per-thread QR objects are reused across aggregates
    level_log().clear();
    gen::Csr A = w.A;
    AMG amg(A.tie(), prm);
    std::vector<LevelLog> &log = level_log();
    for (size_t l = 0; l < log.size(); ++l) {
        typedef typename AMG::build_matrix BM;
        if (log[l].P)  add_matrix(o, fmt("P%zu", l), *std::static_pointer_cast<BM>(log[l].P), cls);
        if (log[l].R)  add_matrix(o, fmt("R%zu", l), *std::static_pointer_cast<BM>(log[l].R), cls);
        if (log[l].Ac) add_matrix(o, fmt("Ac%zu", l), *std::static_pointer_cast<BM>(log[l].Ac), cls);
    }
    o.add1("levels", (double)log.size());
    std::vector<double> f = w.x, u(w.A.n, 0.0);
    amg.apply(f, u);
    o.add("cycle", u, cls, 0, max_abs(u));
    level_log().clear();
}

static Output run_component(const World &w) {
    Output o;
    const long n = w.A.n;
    namespace be = amgcl::backend;
    try {
    switch (w.comp) {
    case C_VECOPS: {
        auto A = to_crs(w.A);
        std::vector<double> x = w.x, y = w.y, z = w.z;
        std::vector<double> r(n), t(w.A.m);
        if ((long)x.size() != w.A.m) x.resize(w.A.m, 0.5);
        y.resize(n, 0.25); z.resize(n, -0.5);
        be::spmv(1.5, *A, x, 0.0, r);            o.add("spmv_b0", r);
        be::spmv(-0.5, *A, x, 2.0, r);           o.add("spmv", r);
        be::residual(y, *A, x, r);               o.add("residual", r);
        be::axpby(2.0, y, -1.0, z);              o.add("axpby", z);
        be::axpby(2.0, y, 0.0, z);               o.add("axpby_b0", z);
        be::axpbypcz(0.5, y, 1.5, z, 0.25, r);   o.add("axpbypcz", r);
        be::vmul(2.0, y, z, 0.5, r);             o.add("vmul", r);
        be::vmul(2.0, y, z, 0.0, r);             o.add("vmul_b0", r);
        be::copy(y, r);                          o.add("copy", r);
        be::clear(r);                            o.add("clear", r);
        break; }
    case C_INNER: {
        std::vector<double> x = w.x, y = w.y; y.resize(x.size(), 1.0);
        double s = 0; for (size_t i = 0; i < x.size(); ++i) s += std::fabs(x[i] * y[i]);
        o.add1("inner_product", be::inner_product(x, y), ROUNDING, s * (double)x.size());
        break; }
    case C_PRODUCT: {
        auto A = to_crs(w.A), B = to_crs(w.B);
        auto Cm = be::product(*A, *B, w.sort != 0);
        add_matrix(o, "product", *Cm, SWITCHED, !w.sort);
        if (w.sort) { std::string wf = crs_wellformed(*Cm, true); if (!wf.empty()) o.error = "sorted product: " + wf; }
        if (w.A.n == w.B.m) {      // triple product as in the Galerkin operator
            auto D = be::product(*Cm, *A, true);
            add_matrix(o, "product3", *D, SWITCHED);
        }
        break; }
    case C_STRUCT: {
        auto A = to_crs(w.A), B = to_crs(w.B);
        auto T = be::transpose(*A); add_matrix(o, "transpose", *T);
        if (w.A.n == w.B.n && w.A.m == w.B.m) { auto S = be::sum(2.0, *A, -0.5, *B, w.sort != 0); add_matrix(o, "sum", *S, BITWISE, !w.sort); }
        { DMatrix S(*A); be::sort_rows(S); add_matrix(o, "sort_rows", S); }
        { DMatrix S(*A); be::scale(S, 0.75); add_matrix(o, "scale", S); }
        if (w.A.n == w.A.m && w.fam >= 0) {
            auto d = be::diagonal(*A, false); o.add("diagonal", std::vector<double>(d->data(), d->data() + n));
            auto di = be::diagonal(*A, true); o.add("diagonal_inv", std::vector<double>(di->data(), di->data() + n));
        }
        for (unsigned bs = 2; bs <= 3; ++bs) if (w.A.n == w.A.m && w.A.n % bs == 0 && w.A.n > 0) {
            DMatrix S(*A); be::sort_rows(S);
            auto Pw = be::pointwise_matrix(S, bs); add_matrix(o, fmt("pointwise%u", bs), *Pw);
        }
        { DMatrix S(*A); add_matrix(o, "crs_copy", S); }
        if (w.A.n == w.A.m) { gen::Csr G = w.A; DMatrix S(G.tie()); add_matrix(o, "crs_from_tuple", S); }
        break; }
    case C_SPECTRAL: {
        auto A = to_crs(w.A);
        o.add1("gershgorin_scaled", be::spectral_radius<true>(*A, 0));
        o.add1("gershgorin", be::spectral_radius<false>(*A, 0));
        if (w.power_iters > 0) {
            double g = be::spectral_radius<false>(*A, 0);
            o.add1("power_scaled", be::spectral_radius<true>(*A, (int)w.power_iters), TIDSEEDED, 1.0);
            o.add1("power", be::spectral_radius<false>(*A, (int)w.power_iters), TIDSEEDED, g);
        }
        break; }
    case C_GS: {
        auto A = to_crs(w.A); be::sort_rows(*A);
        typedef amgcl::relaxation::gauss_seidel<DBackend> GS;
        GS::params ps; ps.serial = true; GS::params pp; pp.serial = false;
        GS S(*A, ps, DBackend::params()), Pp(*A, pp, DBackend::params());
        std::vector<double> xs = w.x, xp = w.x, tmp(n);
        S.apply_pre(*A, w.y, xs, tmp); Pp.apply_pre(*A, w.y, xp, tmp);
        o.add("serial_pre", xs); o.add("parallel_pre", xp);
        S.apply_post(*A, w.y, xs, tmp); Pp.apply_post(*A, w.y, xp, tmp);
        o.add("serial_post", xs); o.add("parallel_post", xp);
        o.add1("parallel_path", Pp.is_serial ? 0 : 1, SKIP);
        break; }
    case C_ILU: {
        auto A = to_crs(w.A); be::sort_rows(*A);
        std::vector<double> xs(n), xp(n), tmp(n);
        #define ILU_CASE(T, SETUP) { typedef amgcl::relaxation::T<DBackend> R; R::params ps, pp; SETUP; ps.solve.serial = true; pp.solve.serial = false; \
            R S(*A, ps, DBackend::params()), Pp(*A, pp, DBackend::params()); xs = w.x; xp = w.x; \
            S.apply_pre(*A, w.y, xs, tmp); Pp.apply_pre(*A, w.y, xp, tmp); S.apply_post(*A, w.y, xs, tmp); Pp.apply_post(*A, w.y, xp, tmp); }
        switch (w.sub) {
            case 0: ILU_CASE(ilu0, (void)0); break;
            case 1: ILU_CASE(iluk, ps.k = pp.k = (int)w.k); break;
            case 2: ILU_CASE(ilup, ps.k = pp.k = (int)w.k); break;
            default: ILU_CASE(ilut, ps.p = pp.p = 1 + (double)w.k; ps.tau = pp.tau = 0.01); break;
        }
        o.add("serial", xs, ROUNDING, 0, max_abs(xs)); o.add("parallel", xp, ROUNDING, 0, max_abs(xp));
        break; }
    case C_HIER: {
        switch (w.coarsening) {
            case 0: hier_run<amgcl::coarsening::ruge_stuben>(w, o, SWITCHED); break;
            case 1: hier_run<amgcl::coarsening::aggregation>(w, o, SWITCHED); break;
            case 2: hier_run<amgcl::coarsening::smoothed_aggregation>(w, o, SWITCHED); break;
            default: hier_run<amgcl::coarsening::smoothed_aggr_emin>(w, o, ROUNDING); break;
        }
        break; }
    case C_SOLVE: {
        boost::property_tree::ptree p;
        p.put("precond.coarsening.type", coarsening_names[w.coarsening]);
        p.put("precond.relax.type", relax_names[w.relax]);
        p.put("precond.coarse_enough", w.coarse_enough);
        p.put("precond.npre", w.npre); p.put("precond.npost", w.npre); p.put("precond.ncycle", w.ncycle);
        if (w.ncycle > 1) p.put("precond.max_levels", 4);      // a W-cycle over a deep hierarchy costs 2^levels
        p.put("solver.type", solver_names[w.solver]);
        p.put("solver.maxiter", w.maxiter);
        if (w.power_iters > 0 && w.coarsening == 2) { p.put("precond.coarsening.estimate_spectral_radius", true); p.put("precond.coarsening.power_iters", w.power_iters); }
        if (w.power_iters > 0 && w.relax == 8) p.put("precond.relax.power_iters", w.power_iters);
        if (w.vary) apply_vary_params(*w.vary, p, "precond.coarsening.", coarsening_names[w.coarsening], "precond.relax.", relax_names[w.relax], "solver.", solver_names[w.solver], false);
        gen::Csr A = w.A;
        RtSolver S(A.tie(), p);
        std::vector<double> f = w.y, u(n, 0.0);
        S.precond().apply(f, u);
        bool loose = (w.coarsening == 3) || (w.power_iters > 0 && (w.coarsening == 2 || w.relax == 8));
        bool tid = w.power_iters > 0 && (w.coarsening == 2 || w.relax == 8);
        o.add("precond_apply", u, tid ? TIDSEEDED : (loose ? ROUNDING : SWITCHED), 0, max_abs(u));
        std::vector<double> x(n, 0.0);
        size_t it; double res; std::tie(it, res) = S(w.y, x);
        // Krylov iterations contain cross-thread reductions: bitwise at a fixed nt, rounding across nt
        // "converged" for the purpose of comparing solutions: reported AND true residual small (truthfulness itself is C01's)
        long double rr = 0, ff = 0; for (long i = 0; i < n; ++i) { long double t = w.y[i]; for (ptrdiff_t j = w.A.ptr[i]; j < w.A.ptr[i+1]; ++j) t -= (long double)w.A.val[j] * x[w.A.col[j]]; rr += t * t; ff += (long double)w.y[i] * w.y[i]; }
        bool conv = res < 1e-8 && std::sqrt((double)(rr / (ff > 0 ? ff : 1))) < 1e-6;
        o.add("solution", x, (loose && !conv) ? SKIP : tid ? TIDSEEDED : (loose ? ROUNDING : (conv ? REDUCTION : SAME_NT_ONLY)), 0, max_abs(x));
        o.add1("iters", (double)it, loose ? SKIP : SAME_NT_ONLY, 0); o.add1("resid", res, loose ? SKIP : SAME_NT_ONLY, 0);
        o.add1("converged", conv ? 1 : 0, loose ? SKIP : SAME_NT_ONLY);      // whether the budget suffices may flip with reduction rounding / the thread-seeded IDR(s) space
        break; }
    case C_TENTATIVE: {
        // public building block of all aggregation coarsenings: per-thread QR objects are reused across the aggregates
        // of a thread's chunk, so what an aggregate gets must not depend on which aggregate its thread handled before
        sim::rng r((uint64_t)w.k * 7919 + (uint64_t)w.x.size() + (uint64_t)(w.x.empty() ? 0 : (long)(w.x[0] * 1e6)), "aggr");
        long np = std::max<long>(n, 1), naggr = std::max<long>(1, np / (1 + (long)r.below(4)));
        std::vector<ptrdiff_t> id(np); std::vector<long> cnt(naggr, 0);
        for (long i = 0; i < np; ++i) { id[i] = i < naggr ? i : (r.chance(0.1) ? -1 : (ptrdiff_t)r.below(naggr)); if (id[i] >= 0) ++cnt[id[i]]; }
        amgcl::coarsening::nullspace_params ns; ns.cols = (int)std::max<long>(w.nullspace, 1); ns.B.resize((size_t)np * ns.cols);
        for (long i = 0; i < np; ++i) for (int k = 0; k < ns.cols; ++k) ns.B[i * ns.cols + k] = k == 0 ? 1.0 : std::pow((double)(i + 1) / np, (double)k) + 0.25 * std::sin((double)(i * (k + 1)));
        auto Pt = amgcl::coarsening::tentative_prolongation<DMatrix>((size_t)np, (size_t)naggr, id, ns, 1);
        add_matrix(o, "P_tent", *Pt);
        bool all_big = true; for (long a = 0; a < naggr; ++a) if (cnt[a] < ns.cols) all_big = false;
        if (all_big) o.add("coarse_nullspace", ns.B); else o.add1("coarse_nullspace_skipped", 1);
        break; }
    case C_BLOCK: {
        auto A = to_crs(w.A); be::sort_rows(*A);
        // block_crs backend construction + spmv (for, single, for in one region)
        for (int bs = 2; bs <= 3; ++bs) {
            typedef amgcl::backend::block_crs<double> BB;
            BB::params bp; bp.block_size = bs;
            auto M = BB::copy_matrix(A, bp);
            size_t nb = (n + bs - 1) / bs;
            std::vector<double> x = w.x; x.resize(nb * bs, 0.5);
            std::vector<double> yv(nb * bs, 7.0);
            be::spmv(1.0, *M, x, 0.0, yv);
            o.add(fmt("block_crs_spmv%d", bs), yv);
        }
        if (n % 2 == 0 && n > 0) {
            typedef amgcl::static_matrix<double,2,2> BV;
            auto Bm = amgcl::adapter::block_matrix<BV>(*A);
            amgcl::backend::crs<BV> Bc(Bm);
            add_matrix(o, "block_matrix2", Bc);
            auto U = amgcl::adapter::unblock_matrix(Bc);
            add_matrix(o, "unblock_matrix2", *U);
            // block-valued SpGEMM on both sides of the 16/17-thread switch; every third row of the left operand keeps a single block
            // (the single-entry fast path of the row merge), the right operand is the block transpose so the factors do not commute
            amgcl::backend::crs<BV> L1; L1.set_size(Bc.nrows, Bc.ncols, true);
            for (size_t i = 0; i < Bc.nrows; ++i) { ptrdiff_t len = Bc.ptr[i+1] - Bc.ptr[i]; L1.ptr[i+1] = (i % 3 == 1 && len > 0) ? 1 : len; }
            L1.set_nonzeros(L1.scan_row_sizes());
            for (size_t i = 0; i < Bc.nrows; ++i) { ptrdiff_t len = L1.ptr[i+1] - L1.ptr[i]; for (ptrdiff_t j = 0; j < len; ++j) { L1.col[L1.ptr[i] + j] = Bc.col[Bc.ptr[i] + j]; L1.val[L1.ptr[i] + j] = Bc.val[Bc.ptr[i] + j]; } }
            auto Tb = be::transpose(Bc);
            auto Pb = be::product(L1, *Tb, true);
            add_matrix(o, "block_product2", *Pb, SWITCHED);
        }
        {
            std::vector<ptrdiff_t> perm(n);
            amgcl::reorder::cuthill_mckee<false>::get(*A, perm);
            std::vector<double> pv(perm.begin(), perm.end());
            o.add("cuthill_mckee", pv);
        }
        break; }
    }
    } catch (const std::exception &e) { o.error = std::string("exception: ") + e.what(); }
    return o;
}

// ---- plan ---------------------------------------------------------------------------------
Plan generate(uint64_t seed, uint64_t run, bool thorough) {
    sim::rng r(seed, "world", run);
    Plan p;
    static const int comps[] = { C_VECOPS, C_INNER, C_PRODUCT, C_PRODUCT, C_STRUCT, C_SPECTRAL, C_GS, C_GS, C_GS, C_ILU, C_ILU, C_HIER, C_HIER, C_SOLVE, C_BLOCK, C_TENTATIVE };
    int comp = comps[r.below(sizeof comps / sizeof comps[0])];
    p.set("comp", comp, comp);
    int fam;
    if (comp == C_GS || comp == C_ILU) { static const int f[] = { gen::F_NONSYM_PATTERN, gen::F_NONSYM_PATTERN, gen::F_GRAPH, gen::F_GRID2D, gen::F_CONVDIFF, gen::F_DISCONNECTED, gen::F_GRID1D }; fam = f[r.below(7)]; }
    else if (comp == C_HIER || comp == C_SOLVE) { static const int f[] = { gen::F_GRID2D, gen::F_GRID2D, gen::F_GRAPH, gen::F_GRID3D, gen::F_GRID2D_DIRROWS, gen::F_GRID1D, gen::F_DISCONNECTED }; fam = f[r.below(7)]; }
    else fam = (int)r.below(gen::NFAMILY);
    p.set("family", fam, fam);
    long nmax = (comp == C_SOLVE || comp == C_HIER) ? (thorough ? 1500 : 600) : 400;
    long n;
    double u = r.unit();
    if (comp == C_SOLVE || comp == C_HIER) n = u < 0.5 ? r.range(20, 120) : r.range(20, nmax);
    else n = u < 0.55 ? r.range(1, 12) : u < 0.9 ? r.range(4, 64) : r.range(16, nmax);
    p.set("n", n, 1);
    p.set("mseed", (long)(r.next() >> 16), 0);
    p.set("vseed", (long)(r.next() >> 16), 0);
    p.set("contrast", r.range(0, 3), 0);
    p.set("aniso", r.chance(0.3) ? (1L << r.range(1, 4)) : 1, 1);
    int ntlo = (comp == C_GS || comp == C_ILU) ? 4 : 2;
    p.set("nt", draw_nt(r, ntlo, 32), ntlo);
    p.set("sub", r.range(0, 3), 0);
    p.set("k", r.range(0, 3), 0);
    p.set("sort", r.range(0, 1), 0);
    p.set("rect", (comp == C_PRODUCT || comp == C_STRUCT || comp == C_VECOPS) ? r.range(0, 1) : 0, 0);
    p.set("m", r.range(1, 40), 1);
    p.set("density", r.range(5, 60), 5);
    p.set("coarsening", r.range(0, 3), 0);
    p.set("relax", r.range(0, 8), 0);
    p.set("solver", r.range(0, 7), 0);
    p.set("coarse_enough", r.range(1, 40), 1);
    p.set("npre", r.range(1, 2), 1);
    p.set("ncycle", r.range(1, 2), 1);
    p.set("power_iters", r.chance(0.3) ? r.range(1, 8) : 0, 0);
    // bound the simulated work: a non-converging solve on a large team costs fiber switches, not insight
    p.set("maxiter", (p.get("nt") > 8 || p.get("ncycle") > 1) ? 25 : 100, 1);
    p.set("nullspace", ((comp == C_HIER && r.chance(0.4)) || comp == C_TENTATIVE) ? r.range(1, 4) : 0, 0);
    p.set("nested", r.chance(0.12) ? 1 : 0, 0);      // the component is also called from inside a caller's parallel region (team of one, omp_get_max_threads() unchanged)
    p.set("cross_switch", r.chance(0.05) ? 1 : 0, 0);      // occasionally compare across the 16/17 SpGEMM switch
    // level-scheduled sweeps on enumerated small patterns: quick tier draws a pattern, thorough tier walks through all of them
    // (3x3: 64, 4x4: 4096, 5x5: 2^20 patterns) by run index
    if ((comp == C_GS || comp == C_ILU) && r.chance(0.35)) {
        long N = 3 + (long)r.below(3); uint64_t npat = 1ULL << (N * (N - 1));
        uint64_t bits = thorough ? (uint64_t)(run / 7) % npat : r.next() % npat;
        p.set("enum_n", N, 3); p.set("enum_bits", (long)bits, 0); p.set("rect", 0, 0); p.set("n", N, 1);
        static const long nte[] = { 4, 4, 5, 8 }; p.set("nt", nte[r.below(4)], 4);
    }
    draw_schedule(r, p.sched, (int)p.get("nt"));
    draw_vary_params(r, p, 0.4);
    p.sched.max_decisions = 2000000000ULL;      // long non-converging solves at 32 threads are legitimate; the wall-clock watchdog bounds them
#ifdef AMGSIM_TRACE
    // trace flavour: every instrumented access inside a parallel region is a possible preemption point
    { static const double pp[] = { 0, 1e-4, 1e-3, 1e-2, 5e-2 }; p.sched.preempt_p = pp[r.below(5)]; if (p.sched.preempt_p > 0 && p.sched.strategy == sim::CANONICAL) p.sched.strategy = sim::RANDOM; }
    if (p.get("n") > 150) p.set("n", 20 + p.get("n") % 130, 1);
    if (p.get("nt") > 8 && r.chance(0.7)) p.set("nt", 4 + p.get("nt") % 5, p.get("nt") >= 4 ? 4 : 2);
    p.set("maxiter", std::min<long>(p.get("maxiter"), 15), 1);
#endif
    return p;
}

static World make_world(const Plan &p) {
    World w;
    w.comp = (int)p.get("comp"); w.fam = (int)p.get("family");
    long n = p.get("n"); uint64_t ms = (uint64_t)p.get("mseed"), vs = (uint64_t)p.get("vseed");
    if (p.get("rect")) {
        long m = p.get("m");
        w.A = gen::make_rect(n, m, ms, (int)p.get("density"), false, p.get("sort") == 0);
        if (w.comp == C_PRODUCT) w.B = gen::make_rect(m, std::max<long>(1, (n + m) / 2), ms + 1, (int)p.get("density"), false, p.get("sort") == 0);
        else w.B = gen::make_rect(n, m, ms + 1, (int)p.get("density"), false, p.get("sort") == 0);
        w.fam = -1;
    } else {
        if (p.get("enum_n", 0) > 0) {
            // one of ALL sparsity patterns of an enum_n x enum_n matrix (diagonal present, off-diagonal entry (i,j) iff bit i*(N-1)+j' of
            // enum_bits): the small structurally non-symmetric patterns are where level schedules go wrong
            long N = p.get("enum_n"); uint64_t bits = (uint64_t)p.get("enum_bits"); gen::Builder bd(N, N); int q = 0;
            for (long i = 0; i < N; ++i) for (long j = 0; j < N; ++j) { if (i == j) { bd.set(i, i, 4.0 + (double)(i % 3)); continue; } if ((bits >> q) & 1) bd.set(i, j, -1.0 / (double)(1 + ((i * 7 + j * 3) % 4))); ++q; }
            w.A = bd.finish(); w.fam = gen::F_NONSYM_PATTERN;
        } else
        w.A = gen::make_matrix(w.fam, n, ms, (int)p.get("contrast"), (int)p.get("aniso"));
        w.B = gen::make_matrix(gen::F_GRAPH, w.A.n, ms + 1, 0, 1);
    }
    w.x = gen::make_vector(w.comp == C_VECOPS ? w.A.m : w.A.n, vs, 0);
    w.y = gen::make_vector(w.A.n, vs + 1, 0);
    w.z = gen::make_vector(w.A.n, vs + 2, 0);
    w.sub = p.get("sub"); w.k = p.get("k"); w.sort = (int)p.get("sort");
    w.coarsening = p.get("coarsening"); w.relax = p.get("relax"); w.solver = p.get("solver");
    w.coarse_enough = p.get("coarse_enough"); w.npre = p.get("npre"); w.ncycle = p.get("ncycle"); w.power_iters = p.get("power_iters"); w.maxiter = p.get("maxiter", 100); w.nullspace = p.get("nullspace", 0);
    return w;
}

static const Item* find_item(const Output &o, const std::string &n) { for (size_t i = 0; i < o.items.size(); ++i) if (o.items[i].name == n) return &o.items[i]; return 0; }

static Violation mk(const char *oracle, const World &w, const char *clause, const std::string &item, const std::string &detail) {
    Violation v; v.oracle = oracle; v.add("component", comp_name[w.comp]); v.add("clause", clause); v.add("item", item);
    if (w.comp == C_HIER || w.comp == C_SOLVE) v.add("coarsening", coarsening_names[w.coarsening]);
    if (w.comp == C_SOLVE) { v.add("relax", relax_names[w.relax]); v.add("solver", solver_names[w.solver]); }
    if (w.comp == C_ILU) v.add("sub", w.sub);
    v.detail = detail; return v;
}

// compare two outputs item by item; 'same_nt': both ran at the same thread count (schedule differs)
static void compare(Result &res, const World &w, const Output &a, const Output &b, bool same_nt, bool same_spgemm, const char *what, int nta, int ntb) {
    bool tidcfg = w.power_iters > 0 && ((w.comp == C_SOLVE && (w.coarsening == 2 || w.relax == 8)) || w.comp == C_SPECTRAL);
    bool discrete_amplification = (w.comp == C_HIER || w.comp == C_SOLVE) && (w.coarsening == 3 || !same_spgemm || tidcfg);
    if (a.error != b.error) {
        if (tidcfg && !same_nt) res.fail(mk("rounding-across-nt", w, "thread-seeded-random-vector", "error", a.error + " / " + b.error));
        else if (!discrete_amplification) res.fail(mk("outcome-differs", w, what, "error", a.error + " / " + b.error));
        return; }
    if (a.items.size() != b.items.size()) {
        // a different number of levels: rounding-level differences (unordered critical accumulation in emin, the other SpGEMM
        // association) flipped a discrete coarsening decision; only the first level can be compared to rounding
        if (!discrete_amplification) res.fail(mk("outcome-differs", w, what, "items", fmt("%zu vs %zu items", a.items.size(), b.items.size())));
    }
    for (size_t i = 0; i < a.items.size() && i < b.items.size(); ++i) {
        const Item &x = a.items[i], &y = b.items[i];
        if (x.name != y.name) break;
        int cls = x.cls;
        // beyond the first level discrete decisions (strength of connection, aggregation) may amplify rounding differences
        if (discrete_amplification && w.comp == C_HIER && !(x.name == "P0" || x.name == "R0" || x.name == "Ac0")) continue;
        if (discrete_amplification && w.comp == C_SOLVE && x.name != "solution") continue;
        if (cls == SKIP || y.cls == SKIP || (cls == SAME_NT_ONLY && !same_nt)) continue;
        if (cls == SAME_NT_ONLY) cls = BITWISE;
        if (cls == REDUCTION) cls = same_nt ? BITWISE : ROUNDING;
        if (cls == TIDSEEDED && same_nt) cls = ROUNDING;      // unordered critical accumulation of the power method
        bool bitwise = (cls == BITWISE) || (cls == SWITCHED && same_spgemm);
        // emin's critical accumulation and the power method's critical sum are schedule dependent by design: ROUNDING even at the same nt
        // (inner_product has per-thread partial sums combined in thread order: bitwise at the same nt)
        if (same_nt && cls == ROUNDING && (w.comp == C_INNER || w.comp == C_ILU)) bitwise = true;
        if (w.comp == C_SOLVE && w.relax >= 1 && w.relax <= 4 && !same_nt && ((nta < 4) != (ntb < 4))) bitwise = false;   // serial vs level-scheduled ILU solve
        if (cls == SWITCHED && !same_spgemm && x.is_matrix && y.is_matrix) {
            // recorded deviation: saad and rmerge associate sums differently (and rmerge keeps duplicates of unsorted rows);
            // what must still hold across the switch: the same matrix up to rounding
            if (x.extra != y.extra || first_diff(x.v, y.v) != -1)
                res.fail(mk("bitwise-across-nt", w, "across-spgemm-switch", x.name, fmt("nt %d vs %d: %s", nta, ntb, x.extra != y.extra ? "structure differs" : "value bits differ")));
            double sc = std::max(max_abs(x.v), max_abs(y.v)), worst = 0; std::pair<long,long> at(-1, -1);
            std::map<std::pair<long,long>,double>::const_iterator ia = x.canon.begin(), ib = y.canon.begin();
            while (ia != x.canon.end() || ib != y.canon.end()) {
                double va = 0, vb = 0; std::pair<long,long> k;
                if (ib == y.canon.end() || (ia != x.canon.end() && ia->first < ib->first)) { k = ia->first; va = ia->second; ++ia; }
                else if (ia == x.canon.end() || ib->first < ia->first) { k = ib->first; vb = ib->second; ++ib; }
                else { k = ia->first; va = ia->second; vb = ib->second; ++ia; ++ib; }
                double d = std::fabs(va - vb); if (d > worst || d != d) { worst = d; at = k; }
            }
            if (!(worst <= 1e-9 * (1 + sc))) res.fail(mk("rounding-across-nt", w, "across-spgemm-switch-rounding", x.name, fmt("nt %d vs %d: entry (%ld,%ld) differs by %.3g", nta, ntb, at.first, at.second, worst)));
            continue;
        }
        if (x.extra != y.extra) { res.fail(mk(same_nt ? "bitwise-across-schedules" : "bitwise-across-nt", w, what, x.name, fmt("structure differs (nt %d vs %d)", nta, ntb))); continue; }
        if (bitwise) {
            long d = first_diff(x.v, y.v);
            if (d != -1) {
                const char *clause = what;
                if (cls == SWITCHED && !same_spgemm) clause = "across-spgemm-switch";
                res.fail(mk(same_nt ? "bitwise-across-schedules" : "bitwise-across-nt", w, clause, x.name,
                    fmt("nt %d vs %d: first difference at %ld: %.17g vs %.17g", nta, ntb, d, d >= 0 ? x.v[d] : 0.0, d >= 0 ? y.v[d] : 0.0)));
            }
        } else if (cls == TIDSEEDED && !same_nt) {
            // thread-seeded start vector: statement says "equal up to rounding"; checked loosely here, strictly under its own oracle
            double diff = max_abs_diff(x.v, y.v), sc = std::max(max_abs(x.v), max_abs(y.v));
            if (diff > 1e-9 * (1 + sc)) {
                Violation v = mk("rounding-across-nt", w, "thread-seeded-random-vector", x.name, fmt("nt %d vs %d: |diff|=%.3g scale=%.3g", nta, ntb, diff, sc));
                res.fail(v);
            }
        } else {
            double diff = max_abs_diff(x.v, y.v), sc = std::max(max_abs(x.v), max_abs(y.v));
            double tol;
            if (w.comp == C_INNER) tol = 4 * 1.2e-16 * x.scale + 1e-300;
            else if (w.comp == C_SOLVE) tol = 1e-5 * (1 + sc);
            else tol = 1e-9 * (1 + sc);
            if (!(diff <= tol)) {
                const char *clause = (cls == SWITCHED) ? "across-spgemm-switch-rounding" : "rounding";
                Violation rv = mk(same_nt ? "rounding-across-schedules" : "rounding-across-nt", w, clause, x.name, fmt("nt %d vs %d: |diff|=%.3g tol=%.3g", nta, ntb, diff, tol));
                // (a result that contains Inf / NaN has no rounding neighbourhood: named in the signature, see C09-emin-nonfinite-hierarchy)
                bool fin = true; for (size_t q = 0; q < x.v.size() && fin; ++q) if (!std::isfinite(x.v[q])) fin = false; for (size_t q = 0; q < y.v.size() && fin; ++q) if (!std::isfinite(y.v[q])) fin = false;
                rv.add("outcome", fin ? "finite" : "nonfinite");
                res.fail(rv);
            }
        }
    }
}

Result execute(const Plan &p) {
    Result res;
    World w = make_world(p); w.vary = &p;
    int nt = (int)p.get("nt");
    int nt_ref = 1;
    bool cross = p.get("cross_switch") != 0;
    if (nt >= 17 && !cross) nt_ref = 17;
    Output oref, otest, osecond;
    sim::RunStatus s0 = world(nt_ref, canonical(), [&]() { oref = run_component(w); });
#ifdef AMGSIM_TRACE
    simtrace::reset();
    sim::RunStatus s1 = world(nt, p.sched, [&]() { simtrace::enable(true); otest = run_component(w); simtrace::enable(false); });
    std::vector<simtrace::Conflict> cands = simtrace::conflicts();
    res.micro += simtrace::accesses();
#else
    sim::RunStatus s1 = world(nt, p.sched, [&]() { otest = run_component(w); });
#endif
    sim::SchedConfig alt = canonical(); alt.strategy = (p.sched.strategy == sim::REVERSE) ? sim::CANONICAL : sim::REVERSE;
    sim::RunStatus s2 = world(nt, alt, [&]() { osecond = run_component(w); });
    res.absorb(s0); res.absorb(s1); res.absorb(s2);
    res.deviations = s1.deviations;
    // a team smaller than omp_get_max_threads(): the caller sits in its own parallel region, nested regions are serialised (the
    // default of every OpenMP runtime) - the library's regions run with one thread while omp_get_max_threads() still says nt
    Output onest; sim::RunStatus s3; bool nested = p.get("nested", 0) != 0 && nt >= 2;
    if (nested) {
        s3 = world(nt, p.sched, [&]() {
            #pragma omp parallel
            { if (omp_get_thread_num() == omp_get_num_threads() - 1) { dirty_stack_small(0x7f); onest = run_component(w); } }      // stale stack content: huge finite doubles
        });
        res.absorb(s3); res.counts["nested_caller_worlds"]++; res.faults["team_smaller_than_max_threads"]++;
    }
    if (s0.status || s1.status || s2.status) {
        Violation v = mk("world-terminates", w, "deadlock-or-budget", "", s1.blocked + s2.blocked + s0.blocked); res.fail(v);
    } else {
        if (!oref.error.empty() && oref.error.find("exception") == std::string::npos) res.fail(mk("wellformed", w, "reference", "", oref.error));
        if (!otest.error.empty() && otest.error.find("exception") == std::string::npos) res.fail(mk("wellformed", w, "test", "", otest.error));
        bool same_spgemm = (nt_ref > 16) == (nt > 16);
        compare(res, w, oref, otest, nt_ref == nt, same_spgemm, "vs-reference", nt_ref, nt);
        compare(res, w, otest, osecond, true, true, "two-schedules", nt, nt);
        if (nested) {
            if (s3.status) res.fail(mk("nested-caller-equals-serial", w, "terminates", "", s3.blocked));
            else { Result tmp; compare(tmp, w, oref, onest, false, same_spgemm, "nested-caller", nt_ref, nt);
                for (size_t q = 0; q < tmp.v.size(); ++q) { if (tmp.v[q].sigval("clause") == "across-spgemm-switch" || tmp.v[q].sigval("clause") == "thread-seeded-random-vector") { res.fail(tmp.v[q]); continue; }   /* recorded deviations keep their own signature */
                    res.fail(mk("nested-caller-equals-serial", w, "team-smaller-than-max-threads", tmp.v[q].sigval("item"), "called from a thread of the caller's parallel region (team of one, omp_get_max_threads() = " + fmt("%d", nt) + "): " + tmp.v[q].detail)); } }
        }
        // level-scheduled sweep equals the serial sweep for every schedule
        if (w.comp == C_GS) {
            const Output *os[2] = { &otest, &osecond };
            for (int k = 0; k < 2; ++k) {
                const Item *sp = find_item(*os[k], "serial_pre"), *pp = find_item(*os[k], "parallel_pre"), *sq = find_item(*os[k], "serial_post"), *pq = find_item(*os[k], "parallel_post");
                if (sp && pp && first_diff(sp->v, pp->v) != -1) { long d = first_diff(sp->v, pp->v); res.fail(mk("gs-parallel-equals-serial", w, "forward", "pre", fmt("nt=%d row %ld: serial %.17g parallel %.17g", nt, d, sp->v[d], pp->v[d]))); }
                if (sq && pq && first_diff(sq->v, pq->v) != -1) { long d = first_diff(sq->v, pq->v); res.fail(mk("gs-parallel-equals-serial", w, "backward", "post", fmt("nt=%d row %ld: serial %.17g parallel %.17g", nt, d, sq->v[d], pq->v[d]))); }
            }
            const Item *pp = find_item(otest, "parallel_path"); if (pp && pp->v[0] == 1) res.counts["gs_parallel_path"]++;
        }
        if (w.comp == C_ILU) {
            const Output *os[2] = { &otest, &osecond };
            for (int k = 0; k < 2; ++k) {
                const Item *s = find_item(*os[k], "serial"), *q = find_item(*os[k], "parallel");
                if (s && q) { double d = max_abs_diff(s->v, q->v), sc = max_abs(s->v); if (!(d <= 1e-9 * (1 + sc))) res.fail(mk("ilu-parallel-equals-serial", w, "rounding", "apply", fmt("nt=%d |diff|=%.3g scale=%.3g", nt, d, sc))); }
            }
            res.counts["ilu_parallel_path"]++;
        }
    }
#ifdef AMGSIM_TRACE
    // happens-before candidates are confirmed by their effect: the world is re-run with the two accesses forced into the
    // opposite order; only a changed result is a violation (the property is about results), the rest is counted as benign
    if (!s1.status) for (size_t ci = 0; ci < cands.size() && ci < 3; ++ci) {
        const simtrace::Conflict &c = cands[ci];
        res.counts["conflict_candidates"]++;
        simtrace::Directive d; d.active = true; d.region = c.a.region; d.hold_tid = c.a.tid; d.hold_index = c.a.index; d.until_tid = c.b.tid; d.until_index = c.b.index;
        Output orev; simtrace::reset(); simtrace::set_directive(d);
        sim::SchedConfig ds = p.sched; ds.preempt_p = 0; ds.strategy = sim::EXPLICIT; ds.deviations = s1.deviations;
        sim::RunStatus sr = world(nt, ds, [&]() { simtrace::enable(true); orev = run_component(w); simtrace::enable(false); });
        simtrace::Directive dst = simtrace::directive_state();
        res.absorb(sr); res.micro += simtrace::accesses();
        if (sr.status) { res.fail(mk("world-terminates", w, "directed-rerun", "", sr.blocked)); continue; }
        if (!dst.released || dst.gave_up) { res.counts["conflict_order_not_enforceable"]++; continue; }
        Result tmp; compare(tmp, w, otest, orev, true, true, "directed-order", nt, nt);
        if (!tmp.v.empty()) {
            Violation v = mk("race-changes-result", w, "unordered-conflicting-accesses", tmp.v[0].sigval("item"),
                fmt("accesses at %s (%s, thread %d) and %s (%s, thread %d) to address 0x%lx are not ordered by a barrier / critical section; forcing the opposite order changes the result: %s",
                    simtrace::describe(c.a.pc).c_str(), c.a.write ? "write" : "read", c.a.tid, simtrace::describe(c.b.pc).c_str(), c.b.write ? "write" : "read", c.b.tid, (unsigned long)c.addr, tmp.v[0].detail.c_str()));
            res.fail(v);
        } else res.counts["benign_conflict"]++;
    }
    simtrace::reset();
    res.counts["traced_worlds"]++;
    if (p.sched.preempt_p > 0) res.faults["access_level_preemption"] += s1.deviations.size();
#endif
    if (nt > 16 && (w.comp == C_PRODUCT || w.comp == C_HIER || w.comp == C_SOLVE)) res.counts["spgemm_rmerge_path"]++;
    res.counts[std::string("comp_") + comp_name[w.comp]]++;
    if (p.get("enum_n", 0) > 0) res.counts[fmt("enumerated_pattern_%ldx%ld", p.get("enum_n"), p.get("enum_n"))]++;
    res.nontrivial = nt >= 2 && !s1.deviations.empty() && w.A.n >= 2;
    uint64_t key = gen::digest(w.A); key = sim::hash_combine(key, w.comp); key = sim::hash_combine(key, nt);
    for (size_t i = 0; i < s1.deviations.size(); ++i) key = sim::hash_combine(key, s1.deviations[i].first * 131 + s1.deviations[i].second);
    key = sim::hash_combine(key, (uint64_t)w.coarsening * 1000 + w.relax * 100 + w.solver * 10 + w.sub);
    res.key = key;
    for (size_t i = 0; i < otest.items.size(); ++i) { res.hash = sim::hash_combine(res.hash, vec_digest(otest.items[i].v)); res.hash = sim::hash_combine(res.hash, otest.items[i].extra); }
    js::Value s = js::Value::object();
    s.set("component", comp_name[w.comp]); s.set("family", w.fam >= 0 ? gen::family_name(w.fam) : "rect");
    s.set("n", w.A.n); s.set("m", w.A.m); s.set("nnz", (long)w.A.nnz()); s.set("nt", nt); s.set("nt_ref", nt_ref);
    s.set("strategy", sim::strategy_name(p.sched.strategy)); s.set("deviations_taken", (long)s1.deviations.size());
    s.set("decisions", (unsigned long long)s1.decisions); s.set("pattern_symmetric", gen::pattern_symmetric(w.A));
    if (w.comp == C_HIER || w.comp == C_SOLVE) s.set("coarsening", coarsening_names[w.coarsening]);
    if (w.comp == C_SOLVE) { s.set("relax", relax_names[w.relax]); s.set("solver", solver_names[w.solver]); }
    res.sample = s;
    return res;
}
