// C15 — solver and preconditioner objects are reusable; calls do not leak state.
// A script of 2..12 operations (solves, solves with an alternative matrix, preconditioner applications, rebuilds,
// and failing variants: zero / NaN / Inf right-hand sides and guesses, singular alternative matrix, tiny iteration
// budget, a preconditioner that throws or writes NaN at its k-th call) is run on ONE object; the model of every
// operation is a freshly constructed object executing that operation alone.  Results must be bitwise equal.
#include "common.hpp"
#include <amgcl/make_solver.hpp>
#include <amgcl/amg.hpp>
#include <amgcl/coarsening/runtime.hpp>
#include <amgcl/relaxation/runtime.hpp>
#include <amgcl/solver/runtime.hpp>
#include <amgcl/relaxation/as_preconditioner.hpp>
#include <amgcl/solver/skyline_lu.hpp>
#include <amgcl/adapter/zero_copy.hpp>
#include <amgcl/deflated_solver.hpp>
#include "harness_main.hpp"

const char *CHECK_ID = "C15";
using namespace cm;
using hz::Plan; using hz::Result; using hz::Violation; using hz::Op;

typedef amgcl::make_solver<
    amgcl::amg<DBackend, amgcl::runtime::coarsening::wrapper, amgcl::runtime::relaxation::wrapper>,
    amgcl::runtime::solver::wrapper<DBackend> > AmgSolver;
typedef amgcl::make_solver<
    amgcl::relaxation::as_preconditioner<DBackend, amgcl::runtime::relaxation::wrapper>,
    amgcl::runtime::solver::wrapper<DBackend> > RelaxSolver;

typedef amgcl::deflated_solver<
    amgcl::amg<DBackend, amgcl::runtime::coarsening::wrapper, amgcl::runtime::relaxation::wrapper>,
    amgcl::runtime::solver::wrapper<DBackend> > DeflSolver;

static const char *coarsening_names[] = { "ruge_stuben", "aggregation", "smoothed_aggregation", "smoothed_aggr_emin" };
static const char *relax_names[] = { "gauss_seidel", "ilu0", "iluk", "ilup", "ilut", "damped_jacobi", "spai0", "spai1", "chebyshev" };
static const char *solver_names[] = { "cg", "bicgstab", "bicgstabl", "gmres", "lgmres", "fgmres", "idrs", "richardson", "preonly" };

struct injected_fault : std::runtime_error { injected_fault() : std::runtime_error("injected fault") {} };

// fault-injecting preconditioner: forwards to the real one; at its k-th application throws or writes a NaN
template <class P>
struct faulty_precond {
    typedef typename P::backend_type backend_type;
    typedef typename P::matrix matrix;
    const P &p; mutable long calls; long k; int kind; mutable bool fired;
    faulty_precond(const P &p, long k, int kind) : p(p), calls(0), k(k), kind(kind), fired(false) {}
    template <class V1, class V2> void apply(const V1 &rhs, V2 &&x) const {
        ++calls;
        if (calls == k && kind == 0) { fired = true; throw injected_fault(); }
        p.apply(rhs, x);
        if (calls == k && kind == 1) { fired = true; x[(size_t)(k * 7) % x.size()] = std::numeric_limits<double>::quiet_NaN(); }
        if (calls == k && kind == 2) { fired = true; for (size_t i = 0; i < x.size(); ++i) x[i] = std::numeric_limits<double>::infinity(); }
    }
    const matrix& system_matrix() const { return p.system_matrix(); }
    std::shared_ptr<matrix> system_matrix_ptr() const { return p.system_matrix_ptr(); }
};

struct OpOut {
    std::vector<double> x; double iters = -1, resid = -1; std::string exc; bool fired = false;
    bool equal(const OpOut &o) const { return exc == o.exc && bits_equal(iters, o.iters) && bits_equal(resid, o.resid) && bits_equal(x, o.x); }
    uint64_t digest() const { uint64_t h = vec_digest(x); h = sim::hash_combine(h, (uint64_t)iters); h = sim::hash_bytes(&resid, 8, h); return sim::hash_bytes(exc.data(), exc.size(), h); }
};

struct Script {
    gen::Csr A, Aalt, Asing, Apert, Ascaled;      // Ascaled = 2*A: every operation of setup and solve is exact under this scaling
    std::vector<std::vector<double> > rhs;   // a few right-hand sides
    std::vector<double> xstar, rhs_exact, rhs_exact_pert, rhs_exact_scaled;    // rhs_exact = A * xstar (resp. Apert * xstar): xstar satisfies any tolerance
    mutable int cur_pert = 0;                // which matrix the object currently holds (rebuild history): 0 A, 1 Apert, 2 Ascaled
    bool scaled_ok = false;                  // rebuilds with 2*A are drawn (AMG bundles without the threshold-based ILUT)
    boost::property_tree::ptree prm;
    bool relax_only; bool allow_rebuild;
    int input_mode = 0;                                   // 0: copied (tuple adapter), 1: zero-copy of the user's arrays (rows stored diagonal-first)
    std::vector<ptrdiff_t> uptr, ucol; std::vector<double> uval;
    std::vector<double> defvec; int ndef = 0;              // deflation vectors [ndef x n]
};

template <class S>
static S* construct(const Script &sc, int which = 0) {
    if (which == 2) { gen::Csr A2 = sc.Ascaled; return new S(A2.tie(), sc.prm); }
    if (sc.input_mode == 1) return new S(amgcl::adapter::zero_copy((size_t)sc.A.n, sc.uptr.data(), sc.ucol.data(), sc.uval.data()), sc.prm);
    gen::Csr A = sc.A;
    return new S(A.tie(), sc.prm);
}

enum { O_SOLVE = 0, O_SOLVE_ALT, O_APPLY, O_SOLVE_ZERO_RHS, O_SOLVE_NAN_RHS, O_SOLVE_INF_GUESS, O_SOLVE_SINGULAR, O_SOLVE_FAULTY, O_APPLY_NAN, O_SOLVE_CONVERGED_GUESS, O_REBUILD, O_SOLVE_HUGE, O_OUTER_APPLY, NOPKIND };
static const char *op_names[] = { "solve", "solve_alt_matrix", "apply", "solve_zero_rhs", "solve_nan_rhs", "solve_inf_guess", "solve_singular_matrix", "solve_faulty_precond", "apply_nan", "solve_converged_guess", "rebuild", "solve_huge_rhs", "outer_apply" };
static int op_kind(const Op &o) { for (int i = 0; i < NOPKIND; ++i) if (o.kind == op_names[i]) return i; return O_SOLVE; }

template <class S>
static OpOut do_op(S &s, const Script &sc, const Op &op, const std::vector<double> *converged_x) {
    OpOut o;
    const long n = sc.A.n;
    int k = op_kind(op);
    long a0 = op.a.size() > 0 ? op.a[0] : 0, a1 = op.a.size() > 1 ? op.a[1] : 0;
    const std::vector<double> &f = sc.rhs[(size_t)a0 % sc.rhs.size()];
    std::vector<double> x(n, 0.0);
    if (a1 & 1) for (long i = 0; i < n; ++i) x[i] = 0.5 + 0.01 * (double)(i % 7);   // non-zero initial guess
    try {
        size_t it = 0; double res = 0;
        switch (k) {
            case O_SOLVE: std::tie(it, res) = s(f, x); break;
            case O_SOLVE_ALT: { gen::Csr B = sc.Aalt; auto M = to_crs(B); std::tie(it, res) = s(*M, f, x); break; }
            case O_APPLY: s.precond().apply(f, x); break;
            case O_SOLVE_ZERO_RHS: { std::vector<double> z(n, 0.0); std::tie(it, res) = s(z, x); break; }
            case O_SOLVE_NAN_RHS: { std::vector<double> g = f; g[(size_t)a1 % n] = std::numeric_limits<double>::quiet_NaN(); std::tie(it, res) = s(g, x); break; }
            case O_SOLVE_INF_GUESS: { x[(size_t)a1 % n] = std::numeric_limits<double>::infinity(); std::tie(it, res) = s(f, x); break; }
            case O_SOLVE_SINGULAR: { gen::Csr B = sc.Asing; auto M = to_crs(B); std::tie(it, res) = s(*M, f, x); break; }
            case O_SOLVE_FAULTY: {
                faulty_precond<typename std::decay<decltype(s.precond())>::type> fp(s.precond(), 1 + a1 % 9, (int)(op.a.size() > 2 ? op.a[2] % 3 : 0));
                try { std::tie(it, res) = s.solver()(s.system_matrix(), fp, f, x); } catch (...) { o.fired = fp.fired; throw; }
                o.fired = fp.fired; break; }
            case O_APPLY_NAN: { std::vector<double> g = f; g[(size_t)a1 % n] = std::numeric_limits<double>::quiet_NaN(); s.precond().apply(g, x); break; }
            case O_SOLVE_CONVERGED_GUESS: { (void)converged_x; x = sc.xstar; std::tie(it, res) = s(sc.cur_pert == 1 ? sc.rhs_exact_pert : sc.cur_pert == 2 ? sc.rhs_exact_scaled : sc.rhs_exact, x); break; }
            case O_OUTER_APPLY: s.apply(f, x); break;      // the bundle used as a preconditioner itself (deflated: P then projection)
            case O_SOLVE_HUGE: { std::vector<double> g = f; for (long i = 0; i < n; ++i) g[i] *= 1e300; std::tie(it, res) = s(g, x); break; }
            default: break;
        }
        o.iters = (double)it; o.resid = res;
    } catch (const injected_fault &) { o.exc = "injected_fault"; }
    catch (const std::exception &e) { o.exc = std::string("std::exception:") + e.what(); }
    catch (...) { o.exc = "non-std exception"; }
    o.x = x;
    return o;
}

// which matrix a rebuild operation installs: 0 the original, 1 the perturbed one, 2 the original times two
static int rebuild_target(const Script &sc, long which) { return sc.scaled_ok ? (int)(((which % 3) + 3) % 3) : (int)(which & 1); }
static void rebuild(AmgSolver &s, const Script &sc, long which) { int t = rebuild_target(sc, which); gen::Csr B = t == 1 ? sc.Apert : t == 2 ? sc.Ascaled : sc.A; s.precond().rebuild(B.tie()); }
static bool direct_model(const AmgSolver*) { return true; }
template <class S> static bool direct_model(const S*) { return false; }
static void rebuild(RelaxSolver &, const Script &, long) {}
static void rebuild(DeflSolver &s, const Script &sc, long which) { gen::Csr B = (which & 1) ? sc.Apert : sc.A; s.precond().rebuild(B.tie()); }

Plan generate(uint64_t seed, uint64_t run, bool thorough) {
    sim::rng r(seed, "world", run);
    Plan p;
    static const int fams[] = { gen::F_GRID2D, gen::F_GRAPH, gen::F_CONVDIFF, gen::F_GRID1D, gen::F_NONSYM_PATTERN, gen::F_GRID2D_DIRROWS, gen::F_DISCONNECTED };
    int fam = fams[r.below(7)];
    p.set("family", fam, fam);
    p.set("n", r.chance(0.7) ? r.range(4, 60) : r.range(30, thorough ? 500 : 200), 2);
    p.set("mseed", (long)(r.next() >> 16), 0);
    p.set("vseed", (long)(r.next() >> 16), 0);
    p.set("contrast", r.range(0, 2), 0);
    p.set("relax_only", r.chance(0.2) ? 1 : 0, 0);
    p.set("deflated", r.chance(0.15) ? r.range(1, 2) : 0, 0);      // deflated_solver with 1 or 2 deflation vectors (when not relax_only)
    p.set("coarsening", r.range(0, 3), 0);
    p.set("relax", r.range(0, 8), 0);
    p.set("solver", r.range(0, 8), 0);
    p.set("pside", r.range(0, 1), 0);
    p.set("maxiter", r.chance(0.3) ? r.range(1, 4) : 100, 1);
    p.set("coarse_enough", r.range(1, 30), 1);
    p.set("npre", r.range(1, 2), 1); p.set("ncycle", r.range(1, 2), 1); p.set("pre_cycles", r.range(1, 2), 1);
    p.set("lgmres_keep", r.chance(0.1) ? 1 : 0, 0);
    p.set("M", r.chance(0.5) ? r.range(2, 6) : 30, 2);       // small restart lengths exercise the restart state
    p.set("allow_rebuild", r.range(0, 1), 0);
    p.set("input_mode", r.chance(0.25) ? 1 : 0, 0);
    { static const long nts[] = { 1, 1, 1, 2, 3, 4, 5, 8, 17 }; p.set("nt", nts[r.below(9)], 1); }
    long nops = r.range(2, thorough ? 12 : 8);
    static const int kinds[] = { O_SOLVE, O_SOLVE, O_SOLVE, O_SOLVE_ALT, O_APPLY, O_APPLY, O_SOLVE_ZERO_RHS, O_SOLVE_NAN_RHS, O_SOLVE_INF_GUESS, O_SOLVE_SINGULAR, O_SOLVE_FAULTY, O_SOLVE_FAULTY, O_SOLVE_FAULTY, O_APPLY_NAN, O_SOLVE_CONVERGED_GUESS, O_REBUILD, O_SOLVE_HUGE, O_OUTER_APPLY };
    for (long i = 0; i < nops; ++i) {
        Op o; int k = kinds[r.below(sizeof kinds / sizeof kinds[0])];
        if (i + 1 == nops && k != O_SOLVE && k != O_APPLY) k = r.chance(0.5) ? O_SOLVE : O_APPLY;   // a fault after the last operation tests nothing
        o.kind = op_names[k]; o.a.push_back(r.range(0, 3)); o.a.push_back(r.range(0, 50)); o.a.push_back(r.range(0, 2));
        p.ops.push_back(o);
    }
    p.min_ops = 1;
    // bound the simulated work of a script (every operation is executed twice: reused and fresh object)
    if ((p.get("nt") > 4 || p.get("ncycle") > 1) && p.get("maxiter") > 30) p.set("maxiter", 30, 1);
    if (p.get("nt") > 8 && p.get("n") > 120) p.set("n", 120, 2);
    draw_schedule(r, p.sched, (int)p.get("nt"));
    draw_vary_params(r, p, 0.4);
    p.sched.max_decisions = 2000000000ULL;     // long scripts of non-converging solves are legitimate; the wall-clock watchdog bounds them
    return p;
}

template <class S>
static void run_script(const Plan &p, const Script &sc, Result &res) {
    gen::Csr A = sc.A;
    uint64_t a_digest = gen::digest(A);
    uint64_t u_digest[3] = { vec_digest(sc.uptr), vec_digest(sc.ucol), vec_digest(sc.uval) };
    std::vector<uint64_t> rhs_digest; for (size_t i = 0; i < sc.rhs.size(); ++i) rhs_digest.push_back(vec_digest(sc.rhs[i]));
    std::string precond_finite = "yes";
    auto sig = [&](const char *oracle, const char *clause, const std::string &opname, const std::string &detail) {
        Violation v; v.oracle = oracle; v.add("component", sc.relax_only ? "relaxation_as_preconditioner" : sc.ndef ? "deflated_solver" : "amg"); v.add("clause", clause); v.add("op", opname);
        v.add("solver", solver_names[p.get("solver")]); v.add("relax", relax_names[p.get("relax")]); if (!sc.relax_only) v.add("coarsening", coarsening_names[p.get("coarsening")]);
        v.add("precond_finite", precond_finite); v.detail = detail; return v; };
    bool lgmres_keep = p.get("solver") == 4 && p.get("lgmres_keep");
    std::unique_ptr<S> reused;
    try { reused.reset(construct<S>(sc)); } catch (const std::exception &e) { res.counts["construction_threw"]++; return; }
    // is the preconditioner itself finite?  (part of the signature: a hierarchy that contains NaN is its own finding)
    { std::vector<double> z(A.n, 0.0), u(A.n, 1.0); reused.reset(); std::unique_ptr<S> probe(construct<S>(sc)); probe->precond().apply(z, u); for (size_t q = 0; q < u.size(); ++q) if (!std::isfinite(u[q])) precond_finite = "no"; probe.reset(); reused.reset(construct<S>(sc)); }
    if (precond_finite == "no") res.counts["nonfinite_preconditioner"]++;
    std::vector<long> rebuilds;
    bool left_state = false;
    // a converged solution for the "guess already satisfies the tolerance" clause
    std::vector<double> conv; bool have_conv = false; long conv_rhs = 0;
    for (size_t i = 0; i < p.ops.size(); ++i) {
        const Op &op = p.ops[i];
        int k = op_kind(op);
        if (k == O_REBUILD) {
            if (!sc.allow_rebuild || sc.relax_only) continue;
            try { rebuild(*reused, sc, op.a[0]); rebuilds.push_back(op.a[0]); sc.cur_pert = rebuild_target(sc, op.a[0]); res.counts["rebuilds"]++; if (sc.cur_pert == 2) res.counts["rebuilds_with_scaled_matrix"]++; } catch (const std::exception &) { res.counts["rebuild_threw"]++; }
            continue;
        }
        const std::vector<double> *cx = 0;
        Op op2 = op;
        if (k == O_SOLVE_CONVERGED_GUESS) { conv = sc.xstar; }
        OpOut got = do_op(*reused, sc, op2, cx);
        // the model: a freshly constructed object (same matrix, parameters, thread count; rebuilds replayed) runs this one operation
        // (AMG bundles: only the LAST rebuild matters - rebuild(A) must restore the original object, rebuild(2*A) must give what a
        //  hierarchy built for 2*A directly is (exact scaling), rebuild(A') is replayed on a new object; other bundles: all rebuilds replayed)
        std::unique_ptr<S> fresh;
        const bool direct = direct_model((const S*)0) && sc.input_mode == 0;      // (zero-copy input: the user's rows are ordered differently from the rebuilt ones - replay)
        if (direct && !rebuilds.empty()) { int t = rebuild_target(sc, rebuilds.back()); fresh.reset(construct<S>(sc, t == 2 ? 2 : 0)); if (t == 1) rebuild(*fresh, sc, rebuilds.back()); }
        else { fresh.reset(construct<S>(sc)); for (size_t q = 0; q < rebuilds.size(); ++q) rebuild(*fresh, sc, rebuilds[q]); }
        OpOut want = do_op(*fresh, sc, op2, cx);
        res.counts[std::string("op_") + op_names[k]]++;
        res.hash = sim::hash_combine(res.hash, got.digest());
        if (got.fired) res.faults[op.a.size() > 2 && op.a[2] % 3 == 0 ? "precond_throws_at_call_k" : op.a[2] % 3 == 1 ? "precond_writes_nan_at_call_k" : "precond_writes_inf_at_call_k"]++;
        if (k == O_SOLVE_NAN_RHS || k == O_APPLY_NAN) res.faults["nan_input"]++;
        if (k == O_SOLVE_INF_GUESS) res.faults["inf_guess"]++;
        if (k == O_SOLVE_SINGULAR) res.faults["singular_alternative_matrix"]++;
        if (k == O_SOLVE_HUGE) res.faults["overflowing_rhs"]++;
        if (!got.exc.empty()) res.faults["call_threw"]++;
        if (got.iters > 0 && !(got.resid < 1e-8)) res.faults["call_not_converged"]++;
        if (got.exc == "non-std exception") res.fail(sig("exception-is-std", "exception-type", op.kind, "non-std exception escaped"));
        if (!lgmres_keep && !got.equal(want)) {
            long d = first_diff(got.x, want.x);
            res.fail(sig("reused-equals-fresh", left_state ? "after-stateful-call" : "first-calls", op.kind,
                fmt("op %zu (%s) on the reused object: iters %.0f resid %.17g exc '%s'; fresh object: iters %.0f resid %.17g exc '%s'; first x difference at %ld",
                    i, op.kind.c_str(), got.iters, got.resid, got.exc.c_str(), want.iters, want.resid, want.exc.c_str(), d)));
        }
        // invariants of single calls (checked on the fresh object's result so that they hold regardless of history)
        // (ns_search = true is the documented way to switch the trivial-solution exit off)
        // a preconditioner application (of the preconditioner, or of the whole bundle through its apply()) has no initial guess:
        // whatever x held before the call must not matter
        if ((k == O_APPLY || k == O_OUTER_APPLY) && want.exc.empty()) {
            Op op3 = op2; if (op3.a.size() > 1) op3.a[1] ^= 1;      // the other initial content of x (zero / non-zero)
            std::unique_ptr<S> fresh2;
            if (direct && !rebuilds.empty()) { int t = rebuild_target(sc, rebuilds.back()); fresh2.reset(construct<S>(sc, t == 2 ? 2 : 0)); if (t == 1) rebuild(*fresh2, sc, rebuilds.back()); }
            else { fresh2.reset(construct<S>(sc)); for (size_t q = 0; q < rebuilds.size(); ++q) rebuild(*fresh2, sc, rebuilds[q]); }
            OpOut other = do_op(*fresh2, sc, op3, cx);
            if (!other.equal(want)) res.fail(sig("apply-ignores-previous-x", "output-only", op.kind, fmt("%s with x = 0 and with x != 0 on entry give different results (first difference at %ld)", op.kind.c_str(), first_diff(other.x, want.x))));
        }
        if (k == O_SOLVE_ZERO_RHS && want.exc.empty() && p.get("solver") != 8 && !sc.prm.get("solver.ns_search", false)) {     // preonly is not an iterative method: it returns P*rhs whatever P is
            bool allzero = true; for (size_t q = 0; q < want.x.size(); ++q) if (want.x[q] != 0) allzero = false;
            if (!allzero || want.iters != 0) res.fail(sig("zero-rhs-gives-zero", "zero-rhs", op.kind, fmt("iters=%.0f, x %s zero", want.iters, allzero ? "is" : "is not")));
        }
        if (k == O_SOLVE_CONVERGED_GUESS && want.exc.empty() && p.get("solver") != 8) {
            if (want.iters != 0 || !bits_equal(want.x, conv)) res.fail(sig("converged-guess-unchanged", "converged-guess", op.kind, fmt("iters=%.0f, x %s", want.iters, bits_equal(want.x, conv) ? "unchanged" : "modified")));
        }
        if (k == O_SOLVE && got.exc.empty() && got.resid < 0.5e-8 && !have_conv && std::isfinite(got.resid) && p.get("solver") != 8) { conv = got.x; have_conv = true; conv_rhs = op.a[0]; }
        if (got.iters > 0 || !got.exc.empty() || got.fired || k == O_APPLY || k == O_APPLY_NAN) left_state = true;
    }
    // the right-hand sides and the system matrix are never modified
    if (gen::digest(A) != a_digest) res.fail(sig("inputs-unmodified", "matrix", "any", "the user's matrix arrays changed"));
    if (sc.input_mode == 1 && (vec_digest(sc.uptr) != u_digest[0] || vec_digest(sc.ucol) != u_digest[1] || vec_digest(sc.uval) != u_digest[2]))
        res.fail(sig("inputs-unmodified", "zero-copy-matrix", "any", "the arrays handed to the zero-copy adapter were modified"));
    for (size_t i = 0; i < sc.rhs.size(); ++i) if (vec_digest(sc.rhs[i]) != rhs_digest[i]) res.fail(sig("inputs-unmodified", "rhs", "any", "a right-hand side changed"));
}

Result execute(const Plan &p) {
    Result res;
    Script sc;
    sc.A = gen::make_matrix((int)p.get("family"), p.get("n"), (uint64_t)p.get("mseed"), (int)p.get("contrast"), 1);
    const long n = sc.A.n;
    sc.Aalt = sc.A; for (size_t j = 0; j < sc.Aalt.val.size(); ++j) sc.Aalt.val[j] *= (j % 3 == 0 ? 1.25 : 1.0);       // slowly changed coefficients
    sc.Apert = sc.A; for (long i = 0; i < n; ++i) for (ptrdiff_t j = sc.A.ptr[i]; j < sc.A.ptr[i+1]; ++j) if (sc.A.col[j] == i) sc.Apert.val[j] *= 1.5;
    sc.Asing = sc.A; for (size_t j = 0; j < sc.Asing.val.size(); ++j) sc.Asing.val[j] = 0.0;                          // zero matrix: breakdown in every method
    for (int k = 0; k < 4; ++k) sc.rhs.push_back(gen::make_vector(n, (uint64_t)p.get("vseed") + k, k == 3 ? 2 : 0));
    sc.xstar = gen::make_vector(n, (uint64_t)p.get("vseed") + 77, 1);      // small integers: A*xstar is exact for dyadic entries
    sc.rhs_exact.assign(n, 0.0);
    sc.rhs_exact_pert.assign(n, 0.0);
    for (long i = 0; i < n; ++i) { long double t = 0, u = 0; for (ptrdiff_t j = sc.A.ptr[i]; j < sc.A.ptr[i+1]; ++j) { t += (long double)sc.A.val[j] * sc.xstar[sc.A.col[j]]; u += (long double)sc.Apert.val[j] * sc.xstar[sc.A.col[j]]; } sc.rhs_exact[i] = (double)t; sc.rhs_exact_pert[i] = (double)u; }
    sc.cur_pert = 0;
    sc.Ascaled = sc.A; for (size_t j = 0; j < sc.Ascaled.val.size(); ++j) sc.Ascaled.val[j] *= 2.0;
    sc.rhs_exact_scaled = sc.rhs_exact; for (long i = 0; i < n; ++i) sc.rhs_exact_scaled[i] *= 2.0;
    // (Ruge-Stuben compares rounding residues with an absolute machine epsilon - ruge_stuben.hpp:222-232 -, so the hierarchy built for 2*A
    //  can differ from the one built for A: recorded under C02, C02-rs-absolute-eps; no scaled rebuilds with it)
    sc.scaled_ok = p.get("relax") != 4 && !p.get("deflated") && p.get("coarsening") != 0;      // (ILUT is the statement's exception to exact power-of-two scaling; the deflated bundle has no rebuild of its own)
    sc.input_mode = (int)p.get("input_mode");
    if (sc.input_mode == 1) {
        // the user's own arrays: every row stored with its diagonal entry first (a legal CRS ordering)
        sc.uptr = sc.A.ptr;
        for (long i = 0; i < n; ++i) {
            for (ptrdiff_t j = sc.A.ptr[i]; j < sc.A.ptr[i+1]; ++j) if (sc.A.col[j] == i) { sc.ucol.push_back(i); sc.uval.push_back(sc.A.val[j]); }
            for (ptrdiff_t j = sc.A.ptr[i]; j < sc.A.ptr[i+1]; ++j) if (sc.A.col[j] != i) { sc.ucol.push_back(sc.A.col[j]); sc.uval.push_back(sc.A.val[j]); }
        }
    }
    sc.relax_only = p.get("relax_only") != 0; sc.allow_rebuild = p.get("allow_rebuild") != 0;
    int nt = (int)p.get("nt");
    long coarsening = p.get("coarsening");
    if (coarsening == 3 && (nt > 1)) coarsening = 2;     // emin's critical accumulation is schedule dependent (C09); bitwise oracle needs nt = 1
    long relax = p.get("relax");
    if (sc.input_mode == 1) { static const long ok[] = { 0, 5, 6, 8 }; relax = ok[relax % 4]; if (nt > 16) nt = 16; }   // ILU/SPAI-1 document sorted rows
    boost::property_tree::ptree &prm = sc.prm;
    prm.put("solver.type", solver_names[p.get("solver")]);
    long solver = p.get("solver");
    if (solver != 8) prm.put("solver.maxiter", p.get("maxiter"));
    if (solver == 1 || solver == 2 || solver == 3 || solver == 4) prm.put("solver.pside", p.get("pside") ? "left" : "right");
    if (solver == 3 || solver == 4 || solver == 5) prm.put("solver.M", p.get("M"));
    if (solver == 4) prm.put("solver.always_reset", p.get("lgmres_keep") ? false : true);
    if (sc.relax_only) prm.put("precond.type", relax_names[relax]);
    else {
        prm.put("precond.coarsening.type", coarsening_names[coarsening]);
        prm.put("precond.relax.type", relax_names[relax]);
        prm.put("precond.coarse_enough", p.get("coarse_enough"));
        prm.put("precond.npre", p.get("npre")); prm.put("precond.npost", p.get("npre")); prm.put("precond.ncycle", p.get("ncycle")); prm.put("precond.pre_cycles", p.get("pre_cycles"));
        prm.put("precond.allow_rebuild", sc.allow_rebuild);
        if (p.get("ncycle") > 1) prm.put("precond.max_levels", 4);      // a W-cycle over a deep hierarchy costs 2^levels
    }
    sc.ndef = (!sc.relax_only && sc.input_mode == 0) ? (int)p.get("deflated", 0) : 0;
    if (sc.ndef) { sc.defvec.resize((size_t)sc.ndef * n); for (long i = 0; i < n; ++i) { sc.defvec[i] = 1.0; if (sc.ndef > 1) sc.defvec[n + i] = (double)(i + 1) / (double)n - 0.5; }
        if (n < 2) sc.ndef = 1;
        prm.put("nvec", sc.ndef); prm.put("vec", sc.defvec.data()); }
    std::string varied = sc.relax_only ? apply_vary_params(p, prm, "", "", "precond.", relax_names[relax], "solver.", solver_names[solver], nt == 1)
                                       : apply_vary_params(p, prm, "precond.coarsening.", coarsening_names[coarsening], "precond.relax.", relax_names[relax], "solver.", solver_names[solver], nt == 1);
    if (solver == 4 && !p.get("lgmres_keep")) prm.put("solver.always_reset", true);
    sim::RunStatus st = world(nt, p.sched, [&]() { if (sc.relax_only) run_script<RelaxSolver>(p, sc, res); else if (sc.ndef) run_script<DeflSolver>(p, sc, res); else run_script<AmgSolver>(p, sc, res); });
    res.absorb(st); res.deviations = st.deviations;
    if (st.status) { Violation v; v.oracle = "world-terminates"; v.add("component", "amg"); v.add("clause", "deadlock-or-budget"); v.detail = st.blocked; res.fail(v); }
    size_t nops = p.ops.size();
    res.nontrivial = nops >= 2;
    uint64_t key = gen::digest(sc.A);
    for (size_t i = 0; i < p.ops.size(); ++i) { key = sim::hash_combine(key, sim::hash_str(p.ops[i].kind.c_str())); for (size_t k = 0; k < p.ops[i].a.size(); ++k) key = sim::hash_combine(key, (uint64_t)p.ops[i].a[k]); }
    key = sim::hash_combine(key, (uint64_t)(p.get("solver") * 1000 + p.get("relax") * 100 + coarsening * 10 + p.get("relax_only")));
    res.key = key;
    js::Value s = js::Value::object();
    s.set("precond", sc.relax_only ? "relaxation" : sc.ndef ? "amg inside deflated_solver" : "amg"); if (sc.ndef) res.counts["deflated_solver_scripts"]++; s.set("coarsening", coarsening_names[coarsening]); s.set("relax", relax_names[relax]); s.set("solver", solver_names[solver]); s.set("input", sc.input_mode ? "zero_copy_diagonal_first" : "copied");
    s.set("family", gen::family_name((int)p.get("family"))); s.set("n", n); s.set("nt", nt); s.set("maxiter", p.get("maxiter")); s.set("strategy", sim::strategy_name(p.sched.strategy));
    if (!varied.empty()) { s.set("varied_parameters", varied); res.counts["varied_parameter_worlds"]++; }
    js::Value ops = js::Value::array(); for (size_t i = 0; i < p.ops.size(); ++i) { js::Value o = js::Value::array(); o.push(p.ops[i].kind); for (size_t k = 0; k < p.ops[i].a.size(); ++k) o.push(p.ops[i].a[k]); ops.push(o); }
    s.set("script", ops);
    res.sample = s;
    return res;
}
