#include <limits>
// C07 — backend vector and matrix-vector primitives equal their algebraic definitions.
// Decided clauses: an output whose scaling coefficient is zero may hold anything (NaN / Inf / recycled heap garbage)
// without influencing the result; the parallel forms (static chunks, per-thread partial sums) give the value of the
// formula for every thread count and schedule; scalar vectors may stand in for block vectors with identical bits.
// Inputs are integer valued so that every formula is exact in every value type.
#include "common.hpp"
#include <complex>
#include <amgcl/value_type/complex.hpp>
#include <amgcl/value_type/static_matrix.hpp>
#include <amgcl/backend/block_crs.hpp>
#include <amgcl/backend/builtin_hybrid.hpp>
#include <amgcl/backend/eigen.hpp>
#include <amgcl/value_type/eigen.hpp>
#include <omp.h>
#include "harness_main.hpp"

const char *CHECK_ID = "C07";
using namespace cm;
using hz::Plan; using hz::Result; using hz::Violation;
namespace be = amgcl::backend;

enum { T_FLOAT, T_DOUBLE, T_LDOUBLE, T_COMPLEX, T_BLOCK2, T_BLOCK_CRS, T_HYBRID, T_EIGEN, T_EIGEN_COMPLEX, T_STATIC_OPS, T_EIGEN_BLOCK, NTYPE };
static const char *type_names[] = { "float", "double", "long_double", "complex", "block2x2", "block_crs", "builtin_hybrid", "eigen", "eigen_complex", "static_matrix_ops", "eigen_block2x2" };

template <class T> struct mk { static T num(long re, long) { return (T)re; } static T poison(int k) { return k == 0 ? std::numeric_limits<T>::quiet_NaN() : k == 1 ? std::numeric_limits<T>::infinity() : -std::numeric_limits<T>::infinity(); } };
template <> struct mk<std::complex<double> > { typedef std::complex<double> T; static T num(long re, long im) { return T((double)re, (double)im); } static T poison(int k) { double q = mk<double>::poison(k); return T(q, q); } };
template <class T> static bool eq(const T &a, const T &b) { return a == b; }

struct Ctx { const Plan &p; Result &res; const char *tname; long n, m; gen::Csr A; sim::rng r; int poison;
    Ctx(const Plan &p, Result &res, const char *t) : p(p), res(res), tname(t), r((uint64_t)p.get("vseed"), "c07") {
        n = p.get("n"); m = p.get("square") ? n : p.get("m"); A = gen::make_rect(n, m, (uint64_t)p.get("mseed"), (int)p.get("density"), true, p.get("unsorted") != 0); poison = (int)p.get("poison"); }
    void fail(const char *prim, const char *clause, const std::string &detail) { Violation v; v.oracle = "formula"; v.add("component", prim); v.add("clause", clause); v.add("value_type", tname); v.detail = detail; res.fail(v); }
};

// scalar-like value types on the builtin backend ------------------------------------------------
template <class V>
static void run_scalar(Ctx &c) {
    typedef be::crs<V> M; const long n = c.n, m = c.m;
    M A; A.set_size(n, m, false); for (long i = 0; i <= n; ++i) A.ptr[i] = c.A.ptr[i]; A.set_nonzeros(c.A.nnz());
    for (size_t j = 0; j < c.A.nnz(); ++j) { A.col[j] = c.A.col[j]; A.val[j] = mk<V>::num((long)c.A.val[j], c.r.range(-2, 2)); }
    std::vector<V> x(m), y(n), z(n), w(n), out(n);
    for (long i = 0; i < m; ++i) x[i] = mk<V>::num(c.r.range(-8, 8), c.r.range(-3, 3));
    for (long i = 0; i < n; ++i) { y[i] = mk<V>::num(c.r.range(-8, 8), c.r.range(-3, 3)); z[i] = mk<V>::num(c.r.range(-8, 8), c.r.range(-3, 3)); w[i] = mk<V>::num(c.r.range(-8, 8), c.r.range(-3, 3)); }
    auto Ax = [&](long i) { V s = V(); for (ptrdiff_t j = A.ptr[i]; j < A.ptr[i+1]; ++j) s += A.val[j] * x[A.col[j]]; return s; };
    auto poisoned = [&]() { std::vector<V> o(n); for (long i = 0; i < n; ++i) o[i] = mk<V>::poison((c.poison + (int)i) % 3); c.res.faults["poisoned_output"]++; return o; };
    typedef typename amgcl::math::scalar_of<V>::type S;
    // spmv, beta == 0: previous content of y must not matter
    { S al = (S)c.p.get("alpha"); out = poisoned(); be::spmv(al, A, x, S(0), out); for (long i = 0; i < n; ++i) if (!eq(out[i], al * Ax(i))) { c.fail("spmv", "beta-zero-ignores-output", fmt("row %ld", i)); break; } }
    { S al = (S)c.p.get("alpha"), bt = (S)c.p.get("beta"); out = y; be::spmv(al, A, x, bt, out); for (long i = 0; i < n; ++i) if (!eq(out[i], al * Ax(i) + bt * y[i])) { c.fail("spmv", "formula", fmt("row %ld alpha %ld beta %ld", i, c.p.get("alpha"), c.p.get("beta"))); break; } }
    { out = poisoned(); be::residual(y, A, x, out); for (long i = 0; i < n; ++i) if (!eq(out[i], y[i] - Ax(i))) { c.fail("residual", "formula", fmt("row %ld", i)); break; } }
    { S a = (S)c.p.get("alpha"); out = poisoned(); be::axpby(a, y, S(0), out); for (long i = 0; i < n; ++i) if (!eq(out[i], a * y[i])) { c.fail("axpby", "b-zero-ignores-output", fmt("element %ld", i)); break; } }
    { S a = (S)c.p.get("alpha"), b = (S)c.p.get("beta"); out = z; be::axpby(a, y, b, out); for (long i = 0; i < n; ++i) if (!eq(out[i], a * y[i] + b * z[i])) { c.fail("axpby", "formula", fmt("element %ld", i)); break; } }
    {   // a subnormal output coefficient is not zero: the old output still enters (the zero test must be exact, not "tiny")
        S b = std::numeric_limits<S>::denorm_min() * S(1 + (c.p.get("alpha") + 3) % 5);
        out = z; be::axpby(S(0), y, b, out); for (long i = 0; i < n; ++i) if (!eq(out[i], S(0) * y[i] + b * z[i])) { c.fail("axpby", "subnormal-coefficient-is-not-zero", fmt("element %ld", i)); break; }
        out = y; be::spmv(S(0), A, x, b, out); for (long i = 0; i < n; ++i) if (!eq(out[i], S(0) * Ax(i) + b * y[i])) { c.fail("spmv", "subnormal-coefficient-is-not-zero", fmt("row %ld", i)); break; }
        out = w; be::vmul(S(0), y, z, b, out); for (long i = 0; i < n; ++i) if (!eq(out[i], S(0) * y[i] * z[i] + b * w[i])) { c.fail("vmul", "subnormal-coefficient-is-not-zero", fmt("element %ld", i)); break; }
        c.res.counts["subnormal_coefficient_clauses"] += 3;
    }
    { S a = (S)c.p.get("alpha"), b = (S)c.p.get("beta"); out = poisoned(); be::axpbypcz(a, y, b, z, S(0), out); for (long i = 0; i < n; ++i) if (!eq(out[i], a * y[i] + b * z[i])) { c.fail("axpbypcz", "c-zero-ignores-output", fmt("element %ld", i)); break; } }
    { S a = (S)c.p.get("alpha"), b = (S)c.p.get("beta"); out = w; be::axpbypcz(a, y, b, z, S(2), out); for (long i = 0; i < n; ++i) if (!eq(out[i], a * y[i] + b * z[i] + S(2) * w[i])) { c.fail("axpbypcz", "formula", fmt("element %ld", i)); break; } }
    { S a = (S)c.p.get("alpha"); out = poisoned(); be::vmul(a, y, z, S(0), out); for (long i = 0; i < n; ++i) if (!eq(out[i], a * y[i] * z[i])) { c.fail("vmul", "b-zero-ignores-output", fmt("element %ld", i)); break; } }
    { S a = (S)c.p.get("alpha"), b = (S)c.p.get("beta"); out = w; be::vmul(a, y, z, b, out); for (long i = 0; i < n; ++i) if (!eq(out[i], a * y[i] * z[i] + b * w[i])) { c.fail("vmul", "formula", fmt("element %ld", i)); break; } }
    { out = poisoned(); be::copy(y, out); for (long i = 0; i < n; ++i) if (!eq(out[i], y[i])) { c.fail("copy", "formula", fmt("element %ld", i)); break; } }
    { out = poisoned(); be::clear(out); for (long i = 0; i < n; ++i) if (!eq(out[i], V())) { c.fail("clear", "formula", fmt("element %ld", i)); break; } }
    { // lin_comb: y = sum c_j v_j + alpha y, alpha == 0 with poisoned y
        std::vector<std::shared_ptr<std::vector<V> > > vs; std::vector<S> cf; long k = 1 + c.p.get("lc") % 4;
        for (long q = 0; q < k; ++q) { auto v = std::make_shared<std::vector<V> >(n); for (long i = 0; i < n; ++i) (*v)[i] = mk<V>::num(c.r.range(-4, 4), c.r.range(-2, 2)); vs.push_back(v); cf.push_back((S)c.r.range(-3, 3)); }
        out = poisoned(); be::lin_comb((size_t)k, cf, vs, S(0), out);
        for (long i = 0; i < n; ++i) { V s = V(); for (long q = 0; q < k; ++q) s += cf[q] * (*vs[q])[i]; if (!eq(out[i], s)) { c.fail("lin_comb", "alpha-zero-ignores-output", fmt("element %ld of %ld vectors", i, k)); break; } }
        S bt = (S)c.p.get("beta"); out = w; be::lin_comb((size_t)k, cf, vs, bt, out);
        for (long i = 0; i < n; ++i) { V s = bt * w[i]; for (long q = 0; q < k; ++q) s += cf[q] * (*vs[q])[i]; if (!eq(out[i], s)) { c.fail("lin_comb", "formula", fmt("element %ld of %ld vectors, alpha %ld", i, k, c.p.get("beta"))); break; } }
    }
    if (!std::is_same<V, S>::value) {
        // coefficients of the value type itself (complex coefficients, as the Krylov solvers pass them for complex systems)
        V aV = mk<V>::num(c.p.get("alpha"), 1 + c.p.get("beta") % 2), bV = mk<V>::num(c.p.get("beta"), -1), cV = mk<V>::num(2, 1);
        out = y; be::spmv(aV, A, x, bV, out); for (long i = 0; i < n; ++i) if (!eq(out[i], aV * Ax(i) + bV * y[i])) { c.fail("spmv", "formula-value-typed-coefficients", fmt("row %ld", i)); break; }
        out = poisoned(); be::spmv(aV, A, x, V(), out); for (long i = 0; i < n; ++i) if (!eq(out[i], aV * Ax(i))) { c.fail("spmv", "beta-zero-ignores-output-value-typed-coefficients", fmt("row %ld", i)); break; }
        out = z; be::axpby(aV, y, bV, out); for (long i = 0; i < n; ++i) if (!eq(out[i], aV * y[i] + bV * z[i])) { c.fail("axpby", "formula-value-typed-coefficients", fmt("element %ld", i)); break; }
        out = w; be::axpbypcz(aV, y, bV, z, cV, out); for (long i = 0; i < n; ++i) if (!eq(out[i], aV * y[i] + bV * z[i] + cV * w[i])) { c.fail("axpbypcz", "formula-value-typed-coefficients", fmt("element %ld", i)); break; }
        out = poisoned(); be::axpbypcz(aV, y, bV, z, V(), out); for (long i = 0; i < n; ++i) if (!eq(out[i], aV * y[i] + bV * z[i])) { c.fail("axpbypcz", "c-zero-ignores-output-value-typed-coefficients", fmt("element %ld", i)); break; }
        std::vector<std::shared_ptr<std::vector<V> > > vs; std::vector<V> cf; long k = 1 + (c.p.get("lc") + c.p.get("alpha") + 8) % 6;
        for (long q = 0; q < k; ++q) { auto v = std::make_shared<std::vector<V> >(n); for (long i = 0; i < n; ++i) (*v)[i] = mk<V>::num(c.r.range(-4, 4), c.r.range(-2, 2)); vs.push_back(v); cf.push_back(mk<V>::num(c.r.range(-3, 3), c.r.range(-2, 2))); }
        out = poisoned(); be::lin_comb((size_t)k, cf, vs, V(), out);
        for (long i = 0; i < n; ++i) { V s2 = V(); for (long q = 0; q < k; ++q) s2 += cf[q] * (*vs[q])[i]; if (!eq(out[i], s2)) { c.fail("lin_comb", "alpha-zero-ignores-output-value-typed-coefficients", fmt("element %ld of %ld vectors", i, k)); break; } }
        out = w; be::lin_comb((size_t)k, cf, vs, bV, out);
        for (long i = 0; i < n; ++i) { V s2 = bV * w[i]; for (long q = 0; q < k; ++q) s2 += cf[q] * (*vs[q])[i]; if (!eq(out[i], s2)) { c.fail("lin_comb", "formula-value-typed-coefficients", fmt("element %ld of %ld vectors", i, k)); break; } }
        c.res.counts["value_typed_coefficient_worlds"]++;
    }
    { // inner product: conjugate-linear in the second argument
        auto ip = be::inner_product(y, z); decltype(ip) want = decltype(ip)();
        for (long i = 0; i < n; ++i) want += amgcl::math::inner_product(y[i], z[i]);
        V chk = V(); for (long i = 0; i < n; ++i) chk += y[i] * amgcl::math::adjoint(z[i]);
        if (!eq((V)ip, chk) || !eq(ip, want)) c.fail("inner_product", "formula", fmt("n=%ld", n));
        if (n >= 1 && sim::get_num_threads_max() >= 2) c.res.counts["inner_product_parallel"]++;
        // the same primitives called from inside the caller's own parallel region (the nested regions get a team of one)
        if (c.p.get("nested") && n >= 1) {
            int T = std::min(sim::get_num_threads_max(), 4); std::vector<V> got(T), got2(T * (size_t)n);
#pragma omp parallel num_threads(T)
            { int t = omp_get_thread_num(); got[t] = (V)be::inner_product(y, z); std::vector<V> o(n); for (long i = 0; i < n; ++i) o[i] = mk<V>::poison((int)(i + t) % 3); be::spmv(S(1), A, x, S(0), o); for (long i = 0; i < n; ++i) got2[t * (size_t)n + i] = o[i]; }
            for (int t = 0; t < T; ++t) { if (!eq(got[t], chk)) { c.fail("inner_product", "called-inside-parallel-region", fmt("outer thread %d of %d", t, T)); break; }
                for (long i = 0; i < n; ++i) if (!eq(got2[t * (size_t)n + i], Ax(i))) { c.fail("spmv", "called-inside-parallel-region", fmt("outer thread %d row %ld", t, i)); t = T; break; } }
            c.res.counts["nested_region_calls"]++;
        }
    }
}

// 2x2 blocks on the builtin backend; scalar vectors in place of block vectors ---------------------
template <class B, class R, bool HYBRID>
static void run_block_t(Ctx &c) {
    const long n = c.n, m = c.m;
    be::crs<B> A; A.set_size(n, m, false); for (long i = 0; i <= n; ++i) A.ptr[i] = c.A.ptr[i]; A.set_nonzeros(c.A.nnz());
    for (size_t j = 0; j < c.A.nnz(); ++j) { A.col[j] = c.A.col[j]; for (int a = 0; a < 2; ++a) for (int b = 0; b < 2; ++b) A.val[j](a, b) = (double)c.r.range(-3, 3); }
    std::vector<R> x(m), y(n), out(n); std::vector<double> xs(2 * m), ys(2 * n), outs(2 * n);
    for (long i = 0; i < m; ++i) for (int a = 0; a < 2; ++a) xs[2*i+a] = x[i](a) = (double)c.r.range(-8, 8);
    for (long i = 0; i < n; ++i) for (int a = 0; a < 2; ++a) ys[2*i+a] = y[i](a) = (double)c.r.range(-8, 8);
    // expectations are computed element by element in plain doubles, NOT with the static_matrix operators under test
    auto mkR = [](double a0, double a1) { R r; r(0) = a0; r(1) = a1; return r; };
    auto Ax = [&](long i) { double s0 = 0, s1 = 0; for (ptrdiff_t j = A.ptr[i]; j < A.ptr[i+1]; ++j) { const B &b = A.val[j]; const R &v = x[A.col[j]]; s0 += b(0, 0) * v(0) + b(0, 1) * v(1); s1 += b(1, 0) * v(0) + b(1, 1) * v(1); } return mkR(s0, s1); };
    double al = (double)c.p.get("alpha"), bt = (double)c.p.get("beta");
    for (long i = 0; i < n; ++i) for (int a = 0; a < 2; ++a) { out[i](a) = mk<double>::poison((c.poison + i + a) % 3); outs[2*i+a] = out[i](a); }
    c.res.faults["poisoned_output"]++;
    be::spmv(al, A, x, 0.0, out);
    for (long i = 0; i < n; ++i) { R w = al * Ax(i); if (out[i](0) != w(0) || out[i](1) != w(1)) { c.fail("spmv", "beta-zero-ignores-output", fmt("block row %ld", i)); break; } }
    be::spmv(al, A, xs, 0.0, outs);      // scalar vectors where block vectors are expected
    for (long i = 0; i < n; ++i) if (outs[2*i] != out[i](0) || outs[2*i+1] != out[i](1)) { c.fail("spmv", "scalar-vectors-for-block-vectors", fmt("block row %ld", i)); break; }
    std::vector<R> o2 = y; be::spmv(al, A, x, bt, o2);
    for (long i = 0; i < n; ++i) { R w = al * Ax(i) + bt * y[i]; if (o2[i](0) != w(0) || o2[i](1) != w(1)) { c.fail("spmv", "formula", fmt("block row %ld", i)); break; } }
    std::vector<double> rs(2 * n, std::numeric_limits<double>::quiet_NaN()); std::vector<R> rb(n);
    be::residual(y, A, x, rb); be::residual(ys, A, xs, rs);
    for (long i = 0; i < n; ++i) { R w = y[i] - Ax(i); if (rb[i](0) != w(0) || rb[i](1) != w(1)) { c.fail("residual", "formula", fmt("block row %ld", i)); break; } if (rs[2*i] != rb[i](0) || rs[2*i+1] != rb[i](1)) { c.fail("residual", "scalar-vectors-for-block-vectors", fmt("block row %ld", i)); break; } }
    // vector updates on block vectors
    std::vector<R> o3(n); for (long i = 0; i < n; ++i) for (int a = 0; a < 2; ++a) o3[i](a) = mk<double>::poison((int)(i + a) % 3);
    be::axpby(al, y, 0.0, o3); for (long i = 0; i < n; ++i) { R w = al * y[i]; if (o3[i](0) != w(0) || o3[i](1) != w(1)) { c.fail("axpby", "b-zero-ignores-output", fmt("block %ld", i)); break; } }
    double ip = be::inner_product(y, y), want = 0; for (long i = 0; i < n; ++i) want += y[i](0) * y[i](0) + y[i](1) * y[i](1);
    if (ip != want) c.fail("inner_product", "formula", "block vectors");
    {   // remaining vector primitives on block vectors; vmul with a block diagonal, with block and with scalar vectors
        std::vector<R> z(n), wv(n), o4(n); std::vector<B> dg(n); std::vector<double> zs(2 * n), o5(2 * n);
        for (long i = 0; i < n; ++i) for (int a = 0; a < 2; ++a) { zs[2*i+a] = z[i](a) = (double)c.r.range(-8, 8); wv[i](a) = (double)c.r.range(-8, 8); for (int b = 0; b < 2; ++b) dg[i](a, b) = (double)c.r.range(-3, 3); }
        auto poisonR = [&](std::vector<R> &o) { for (long i = 0; i < n; ++i) for (int a = 0; a < 2; ++a) o[i](a) = mk<double>::poison((int)(c.poison + i + a) % 3); };
        auto sameR = [&](const R &p, const R &q) { return p(0) == q(0) && p(1) == q(1); };
        poisonR(o4); be::axpbypcz(al, y, bt, z, 0.0, o4); for (long i = 0; i < n; ++i) if (!sameR(o4[i], al * y[i] + bt * z[i])) { c.fail("axpbypcz", "c-zero-ignores-output", fmt("block %ld", i)); break; }
        o4 = wv; be::axpbypcz(al, y, bt, z, 2.0, o4); for (long i = 0; i < n; ++i) if (!sameR(o4[i], al * y[i] + bt * z[i] + 2.0 * wv[i])) { c.fail("axpbypcz", "formula", fmt("block %ld", i)); break; }
        o4 = z; be::axpby(al, y, bt, o4); for (long i = 0; i < n; ++i) if (!sameR(o4[i], al * y[i] + bt * z[i])) { c.fail("axpby", "formula", fmt("block %ld", i)); break; }
        poisonR(o4); be::vmul(al, dg, z, 0.0, o4); for (long i = 0; i < n; ++i) if (!sameR(o4[i], al * dg[i] * z[i])) { c.fail("vmul", "b-zero-ignores-output", fmt("block %ld", i)); break; }
        std::vector<R> o6 = wv; be::vmul(al, dg, z, bt, o6); for (long i = 0; i < n; ++i) if (!sameR(o6[i], al * dg[i] * z[i] + bt * wv[i])) { c.fail("vmul", "formula", fmt("block %ld", i)); break; }
        for (long i = 0; i < 2 * n; ++i) o5[i] = mk<double>::poison((int)i % 3);
        be::vmul(al, dg, zs, 0.0, o5); for (long i = 0; i < n; ++i) if (o5[2*i] != o4[i](0) || o5[2*i+1] != o4[i](1)) { c.fail("vmul", "scalar-vectors-for-block-vectors", fmt("block %ld", i)); break; }
        poisonR(o4); be::copy(y, o4); for (long i = 0; i < n; ++i) if (!sameR(o4[i], y[i])) { c.fail("copy", "formula", fmt("block %ld", i)); break; }
        poisonR(o4); be::clear(o4); for (long i = 0; i < n; ++i) if (o4[i](0) != 0 || o4[i](1) != 0) { c.fail("clear", "formula", fmt("block %ld", i)); break; }
        std::vector<std::shared_ptr<std::vector<R> > > vs; std::vector<double> cf; long k = 1 + c.p.get("lc") % 4;
        for (long q = 0; q < k; ++q) { auto v = std::make_shared<std::vector<R> >(n); for (long i = 0; i < n; ++i) for (int a = 0; a < 2; ++a) (*v)[i](a) = (double)c.r.range(-4, 4); vs.push_back(v); cf.push_back((double)c.r.range(-3, 3)); }
        poisonR(o4); be::lin_comb((size_t)k, cf, vs, 0.0, o4);
        for (long i = 0; i < n; ++i) { R s2 = amgcl::math::zero<R>(); for (long q = 0; q < k; ++q) s2 += cf[q] * (*vs[q])[i]; if (!sameR(o4[i], s2)) { c.fail("lin_comb", "alpha-zero-ignores-output", fmt("block %ld of %ld vectors", i, k)); break; } }
        o4 = wv; be::lin_comb((size_t)k, cf, vs, bt, o4);
        for (long i = 0; i < n; ++i) { R s2 = bt * wv[i]; for (long q = 0; q < k; ++q) s2 += cf[q] * (*vs[q])[i]; if (!sameR(o4[i], s2)) { c.fail("lin_comb", "formula", fmt("block %ld of %ld vectors", i, k)); break; } }
        c.res.counts["block_vector_primitives"]++;
    }
    // hybrid backend: block matrix, scalar vectors
    if constexpr (HYBRID) { typedef be::builtin_hybrid<B> HB; auto As = std::make_shared<be::crs<double> >();
      // scalar matrix equal to the block matrix
      As->set_size(2 * n, 2 * m, true); for (long i = 0; i < n; ++i) { long wd = (A.ptr[i+1] - A.ptr[i]) * 2; As->ptr[2*i+1] = wd; As->ptr[2*i+2] = wd; } As->set_nonzeros(As->scan_row_sizes());
      for (long i = 0; i < n; ++i) for (int a = 0; a < 2; ++a) { ptrdiff_t h = As->ptr[2*i+a]; for (ptrdiff_t j = A.ptr[i]; j < A.ptr[i+1]; ++j) for (int b = 0; b < 2; ++b) { As->col[h] = 2 * A.col[j] + b; As->val[h] = A.val[j](a, b); ++h; } }
      be::sort_rows(*As);      // the block adapter walks the rows in column order (amg always sorts before moving to the backend)
      auto H = HB::copy_matrix(As, typename HB::params());
      std::vector<double> oh(2 * n); for (long i = 0; i < 2 * n; ++i) oh[i] = mk<double>::poison((int)i % 3);
      be::spmv(al, *H, xs, 0.0, oh);
      for (long i = 0; i < n; ++i) if (oh[2*i] != out[i](0) || oh[2*i+1] != out[i](1)) { c.fail("spmv", "hybrid-backend", fmt("block row %ld", i)); break; }
      std::vector<double> rh(2 * n, 7.0); be::residual(ys, *H, xs, rh);
      for (long i = 0; i < n; ++i) if (rh[2*i] != rb[i](0) || rh[2*i+1] != rb[i](1)) { c.fail("residual", "hybrid-backend", fmt("block row %ld", i)); break; }
      // the same matrix with its zero entries not stored: the scalar rows of a block row then touch different block columns, which is
      // what the scalar-to-block conversion behind copy_matrix has to merge (structurally dense blocks above never exercise that)
      { auto Az = std::make_shared<be::crs<double> >(); Az->set_size(2 * n, 2 * m, true);
        for (long i = 0; i < 2 * n; ++i) { ptrdiff_t w = 0; for (ptrdiff_t j = As->ptr[i]; j < As->ptr[i+1]; ++j) if (As->val[j] != 0) ++w; Az->ptr[i+1] = w; }
        Az->set_nonzeros(Az->scan_row_sizes());
        for (long i = 0; i < 2 * n; ++i) { ptrdiff_t h = Az->ptr[i]; for (ptrdiff_t j = As->ptr[i]; j < As->ptr[i+1]; ++j) if (As->val[j] != 0) { Az->col[h] = As->col[j]; Az->val[h] = As->val[j]; ++h; } }
        auto Hz = HB::copy_matrix(Az, typename HB::params());
        std::vector<double> oz(2 * n); for (long i = 0; i < 2 * n; ++i) oz[i] = mk<double>::poison((int)i % 3);
        be::spmv(al, *Hz, xs, 0.0, oz);
        for (long i = 0; i < n; ++i) if (oz[2*i] != out[i](0) || oz[2*i+1] != out[i](1)) { c.fail("spmv", "hybrid-backend-ragged-blocks", fmt("block row %ld", i)); break; }
        std::vector<double> rz(2 * n, 7.0); be::residual(ys, *Hz, xs, rz);
        for (long i = 0; i < n; ++i) if (rz[2*i] != rb[i](0) || rz[2*i+1] != rb[i](1)) { c.fail("residual", "hybrid-backend-ragged-blocks", fmt("block row %ld", i)); break; }
        c.res.counts["hybrid_ragged_blocks"]++; }
      // mixed precision: single-precision blocks applied to double-precision scalar vectors (small integers: exact in both)
      { typedef amgcl::static_matrix<float,2,2> BF; typedef be::builtin_hybrid<BF> HF; auto Af = std::make_shared<be::crs<float> >(*As);
        auto Hf = HF::copy_matrix(Af, typename HF::params());
        std::vector<double> of(2 * n); for (long i = 0; i < 2 * n; ++i) of[i] = mk<double>::poison((int)i % 3);
        be::spmv(al, *Hf, xs, 0.0, of);
        for (long i = 0; i < n; ++i) if (of[2*i] != out[i](0) || of[2*i+1] != out[i](1)) { c.fail("spmv", "hybrid-backend-mixed-precision", fmt("block row %ld: %g %g, expected %g %g", i, of[2*i], of[2*i+1], (double)out[i](0), (double)out[i](1))); break; }
        std::vector<double> rf(2 * n, 7.0); be::residual(ys, *Hf, xs, rf);
        for (long i = 0; i < n; ++i) if (rf[2*i] != rb[i](0) || rf[2*i+1] != rb[i](1)) { c.fail("residual", "hybrid-backend-mixed-precision", fmt("block row %ld", i)); break; }
        c.res.counts["mixed_precision_hybrid"]++; }
    }
}


static void run_block(Ctx &c) { run_block_t<amgcl::static_matrix<double,2,2>, amgcl::static_matrix<double,2,1>, true>(c); }
// Eigen fixed-size matrices as the block value type of the builtin backend (amgcl/value_type/eigen.hpp)
static void run_eigen_block(Ctx &c) { run_block_t<Eigen::Matrix<double,2,2>, Eigen::Matrix<double,2,1>, false>(c); }

template <class T> static double ip_elem(const T &ip, int i, int j) { return ip(i, j); }
static inline double ip_elem(double ip, int, int) { return ip; }

// static_matrix value type: every operator and math:: specialisation against plain loops over the elements (integer data: exact).
// The block primitives above compute their expectations with these operators too, so the operators themselves are checked here.
template <int N, int M, int K>
static void run_static_ops(Ctx &c) {
    namespace m = amgcl::math;
    typedef amgcl::static_matrix<double, N, M> A_t; typedef amgcl::static_matrix<double, M, K> B_t; typedef amgcl::static_matrix<double, N, K> C_t;
    auto fail = [&](const char *op, const std::string &d) { Violation v; v.oracle = "formula"; v.add("component", "static_matrix"); v.add("clause", op); v.add("value_type", fmt("%dx%d*%dx%d", N, M, M, K)); v.detail = d; c.res.fail(v); };
    for (int rep = 0; rep < 4; ++rep) {
        A_t a, a2; B_t b; double da[N][M], da2[N][M], db[M][K];
        for (int i = 0; i < N; ++i) for (int j = 0; j < M; ++j) { da[i][j] = (double)c.r.range(-5, 5); da2[i][j] = (double)c.r.range(-5, 5); a(i, j) = da[i][j]; a2(i, j) = da2[i][j]; }
        for (int i = 0; i < M; ++i) for (int j = 0; j < K; ++j) { db[i][j] = (double)c.r.range(-5, 5); b(i, j) = db[i][j]; }
        double s = (double)c.r.range(-3, 3);
        // element access: (i,j) and linear index are row-major views of the same storage
        for (int i = 0; i < N; ++i) for (int j = 0; j < M; ++j) if (a(i * M + j) != da[i][j] || a.data()[i * M + j] != da[i][j]) { fail("element-access", fmt("(%d,%d)", i, j)); break; }
        { C_t p = a * b; for (int i = 0; i < N; ++i) for (int j = 0; j < K; ++j) { double w = 0; for (int k = 0; k < M; ++k) w += da[i][k] * db[k][j]; if (p(i, j) != w) { fail("matrix-product", fmt("(%d,%d) = %g, definition %g", i, j, p(i, j), w)); i = N; break; } } }
        { A_t p = a + a2, q = a - a2, n1 = -a, sc = s * a, t = a; t += a2; A_t u = a; u -= a2; A_t w2 = a; w2 *= s;
          for (int i = 0; i < N; ++i) for (int j = 0; j < M; ++j) {
            if (p(i, j) != da[i][j] + da2[i][j]) { fail("operator+", fmt("(%d,%d)", i, j)); i = N; break; } if (q(i, j) != da[i][j] - da2[i][j]) { fail("operator-", fmt("(%d,%d)", i, j)); i = N; break; }
            if (n1(i, j) != -da[i][j]) { fail("unary-minus", fmt("(%d,%d)", i, j)); i = N; break; } if (sc(i, j) != s * da[i][j]) { fail("scalar*matrix", fmt("(%d,%d) = %g, definition %g", i, j, sc(i, j), s * da[i][j])); i = N; break; }
            if (t(i, j) != da[i][j] + da2[i][j]) { fail("operator+=", fmt("(%d,%d)", i, j)); i = N; break; } if (u(i, j) != da[i][j] - da2[i][j]) { fail("operator-=", fmt("(%d,%d)", i, j)); i = N; break; }
            if (w2(i, j) != s * da[i][j]) { fail("operator*=", fmt("(%d,%d) = %g, definition %g", i, j, w2(i, j), s * da[i][j])); i = N; break; } } }
        { auto at = m::adjoint(a); for (int i = 0; i < N; ++i) for (int j = 0; j < M; ++j) if (at(j, i) != da[i][j]) { fail("adjoint", fmt("(%d,%d)", j, i)); i = N; break; } }
        { double fro = 0; for (int i = 0; i < N; ++i) for (int j = 0; j < M; ++j) fro += da[i][j] * da[i][j]; if (std::fabs(m::norm(a) - std::sqrt(fro)) > 1e-14 * (1 + std::sqrt(fro))) fail("norm", fmt("%g vs Frobenius %g", (double)m::norm(a), std::sqrt(fro))); }
        { auto ip = m::inner_product(a, a2);      // x^H-free convention of the library: sum_k x(k,i) * adjoint(y(k,j))  (M x M), a scalar for column vectors
          for (int i = 0; i < M; ++i) for (int j = 0; j < M; ++j) { double w = 0; for (int k = 0; k < N; ++k) w += da[k][i] * da2[k][j]; double g = ip_elem(ip, i, j); if (g != w) { fail("inner_product", fmt("(%d,%d) = %g, definition %g", i, j, g, w)); i = M; break; } } }
        { A_t z = m::zero<A_t>(), k5 = m::constant<A_t>(5.0); bool zok = m::is_zero(z) && !m::is_zero(k5) && (N * M == 0 || !m::is_zero(a) || [&]() { for (int i = 0; i < N; ++i) for (int j = 0; j < M; ++j) if (da[i][j] != 0) return false; return true; }());
          for (int i = 0; i < N * M; ++i) if (z(i) != 0 || k5(i) != 5.0) zok = false; if (!zok) fail("zero/constant/is_zero", "wrong element"); }
        { A_t z = m::zero<A_t>(); z(N - 1, M - 1) = 1; if (m::is_zero(z)) fail("is_zero", "a matrix whose last element is non-zero is reported zero"); }
    }
    c.res.counts["static_matrix_operator_sets"]++;
}
template <int N> static void run_static_square(Ctx &c) {
    namespace m = amgcl::math; typedef amgcl::static_matrix<double, N, N> S;
    S I = m::identity<S>(); for (int i = 0; i < N; ++i) for (int j = 0; j < N; ++j) if (I(i, j) != (i == j ? 1.0 : 0.0)) { Violation v; v.oracle = "formula"; v.add("component", "static_matrix"); v.add("clause", "identity"); v.add("value_type", fmt("%dx%d", N, N)); v.detail = "identity"; c.res.fail(v); return; }
    // inverse of a diagonally dominant integer matrix: A * inv(A) = I to rounding
    S a; double d[N][N]; for (int i = 0; i < N; ++i) for (int j = 0; j < N; ++j) { d[i][j] = i == j ? 8.0 + i : (double)c.r.range(-1, 1); a(i, j) = d[i][j]; }
    S ai = m::inverse(a); double worst = 0; for (int i = 0; i < N; ++i) for (int j = 0; j < N; ++j) { double w = 0; for (int k = 0; k < N; ++k) w += d[i][k] * ai(k, j); worst = std::max(worst, std::fabs(w - (i == j ? 1.0 : 0.0))); }
    if (!(worst <= 1e-12)) { Violation v; v.oracle = "formula"; v.add("component", "static_matrix"); v.add("clause", "inverse"); v.add("value_type", fmt("%dx%d", N, N)); v.detail = fmt("A*inverse(A) deviates from I by %.3g", worst); c.res.fail(v); }
}

// block_crs backend: sizes not divisible by the block size --------------------------------------------
static void run_block_crs(Ctx &c) {
    const long n = c.n; if (n < 1) return;
    const long m = c.m < 1 ? 1 : c.m;      // rectangular shapes too (transfer operators live in this backend as well)
    gen::Csr A = gen::make_rect(n, m, (uint64_t)c.p.get("mseed"), (int)c.p.get("density"), true, false, false);
    auto M = to_crs(A);
    typedef be::block_crs<double> BB; BB::params bp; bp.block_size = (size_t)c.p.get("bs");
    auto Bm = BB::copy_matrix(M, bp);
    size_t bs = bp.block_size, nb = (n + bs - 1) / bs, mb = (m + bs - 1) / bs;
    std::vector<double> x(mb * bs, 0.0), y(nb * bs, 0.0), out(nb * bs);
    for (long i = 0; i < m; ++i) x[i] = (double)c.r.range(-8, 8);
    for (long i = 0; i < n; ++i) y[i] = (double)c.r.range(-8, 8);
    if (n != m) c.res.counts["block_crs_rectangular"]++;
    auto Ax = [&](long i) { double s = 0; for (ptrdiff_t j = A.ptr[i]; j < A.ptr[i+1]; ++j) s += A.val[j] * x[A.col[j]]; return s; };
    double al = (double)c.p.get("alpha"), bt = (double)c.p.get("beta");
    for (size_t i = 0; i < out.size(); ++i) out[i] = mk<double>::poison((int)i % 3);
    c.res.faults["poisoned_output"]++;
    be::spmv(al, *Bm, x, 0.0, out);
    for (long i = 0; i < n; ++i) if (out[i] != al * Ax(i)) { c.fail("spmv", "beta-zero-ignores-output", fmt("row %ld block size %zu", i, bs)); break; }
    out = y; be::spmv(al, *Bm, x, bt, out);
    for (long i = 0; i < n; ++i) if (out[i] != al * Ax(i) + bt * y[i]) { c.fail("spmv", "formula", fmt("row %ld block size %zu", i, bs)); break; }
    for (size_t i = 0; i < out.size(); ++i) out[i] = mk<double>::poison((int)i % 3);
    be::residual(y, *Bm, x, out);
    for (long i = 0; i < n; ++i) if (out[i] != y[i] - Ax(i)) { c.fail("residual", "formula", fmt("row %ld block size %zu", i, bs)); break; }
    if (n % bs) c.res.counts["size_not_divisible_by_block"]++;
}

// Eigen backend (real and complex values) -------------------------------------------------------------
template <class T>
static void run_eigen(Ctx &c) {
    const long n = c.n; if (n < 1) return;
    typedef be::eigen<T> EB; typedef Eigen::Matrix<T, Eigen::Dynamic, 1> Vec;
    gen::Csr A = gen::make_rect(n, n, (uint64_t)c.p.get("mseed"), (int)c.p.get("density"), true, false, false);
    auto M = std::make_shared<be::crs<T> >(); M->set_size(n, n, false); for (long i = 0; i <= n; ++i) M->ptr[i] = A.ptr[i]; M->set_nonzeros(A.nnz());
    for (size_t j = 0; j < A.nnz(); ++j) { M->col[j] = A.col[j]; M->val[j] = mk<T>::num((long)A.val[j], c.r.range(-2, 2)); }
    be::sort_rows(*M);
    auto E = EB::copy_matrix(M, typename EB::params());
    Vec x(n), y(n), out(n), z(n);
    for (long i = 0; i < n; ++i) { x[i] = mk<T>::num(c.r.range(-8, 8), c.r.range(-3, 3)); y[i] = mk<T>::num(c.r.range(-8, 8), c.r.range(-3, 3)); z[i] = mk<T>::num(c.r.range(-8, 8), c.r.range(-3, 3)); }
    auto Ax = [&](long i) { T s = T(); for (ptrdiff_t j = M->ptr[i]; j < M->ptr[i+1]; ++j) s += M->val[j] * x[M->col[j]]; return s; };
    typedef typename amgcl::math::scalar_of<T>::type S;
    S al = (S)c.p.get("alpha"), bt = (S)c.p.get("beta");
    auto poison = [&]() { for (long i = 0; i < n; ++i) out[i] = mk<T>::poison((int)i % 3); };
    poison(); c.res.faults["poisoned_output"]++;
    be::spmv(al, *E, x, S(0), out); for (long i = 0; i < n; ++i) if (!eq(T(out[i]), al * Ax(i))) { c.fail("spmv", "beta-zero-ignores-output", fmt("row %ld", i)); break; }
    out = y; be::spmv(al, *E, x, bt, out); for (long i = 0; i < n; ++i) if (!eq(T(out[i]), al * Ax(i) + bt * y[i])) { c.fail("spmv", "formula", fmt("row %ld", i)); break; }
    poison(); be::residual(y, *E, x, out); for (long i = 0; i < n; ++i) if (!eq(T(out[i]), y[i] - Ax(i))) { c.fail("residual", "formula", fmt("row %ld", i)); break; }
    poison(); be::axpby(al, y, S(0), out); for (long i = 0; i < n; ++i) if (!eq(T(out[i]), al * y[i])) { c.fail("axpby", "b-zero-ignores-output", fmt("element %ld", i)); break; }
    out = z; be::axpby(al, y, bt, out); for (long i = 0; i < n; ++i) if (!eq(T(out[i]), al * y[i] + bt * z[i])) { c.fail("axpby", "formula", fmt("element %ld", i)); break; }
    poison(); be::axpbypcz(al, y, bt, z, S(0), out); for (long i = 0; i < n; ++i) if (!eq(T(out[i]), al * y[i] + bt * z[i])) { c.fail("axpbypcz", "c-zero-ignores-output", fmt("element %ld", i)); break; }
    out = x; be::axpbypcz(al, y, bt, z, S(2), out); for (long i = 0; i < n; ++i) if (!eq(T(out[i]), al * y[i] + bt * z[i] + S(2) * x[i])) { c.fail("axpbypcz", "formula", fmt("element %ld", i)); break; }
    poison(); be::vmul(al, y, z, S(0), out); for (long i = 0; i < n; ++i) if (!eq(T(out[i]), al * y[i] * z[i])) { c.fail("vmul", "b-zero-ignores-output", fmt("element %ld", i)); break; }
    out = x; be::vmul(al, y, z, bt, out); for (long i = 0; i < n; ++i) if (!eq(T(out[i]), al * y[i] * z[i] + bt * x[i])) { c.fail("vmul", "formula", fmt("element %ld", i)); break; }
    poison(); be::copy(y, out); for (long i = 0; i < n; ++i) if (!eq(T(out[i]), T(y[i]))) { c.fail("copy", "formula", fmt("element %ld", i)); break; }
    be::clear(out); for (long i = 0; i < n; ++i) if (!eq(T(out[i]), T())) { c.fail("clear", "formula", fmt("element %ld", i)); break; }
    T ip = be::inner_product(y, z), want = T(); for (long i = 0; i < n; ++i) want += amgcl::math::inner_product(T(y[i]), T(z[i]));
    if (!eq(ip, want)) c.fail("inner_product", "formula", "eigen vectors (conjugate-linear in the second argument)");
}

Plan generate(uint64_t seed, uint64_t run, bool thorough) {
    sim::rng r(seed, "world", run);
    Plan p;
    int t = (int)r.below(NTYPE);
    p.set("type", t, t);
    double u = r.unit();
    p.set("n", u < 0.4 ? r.range(0, 8) : u < 0.9 ? r.range(4, 70) : r.range(50, thorough ? 2000 : 600), 0);
    p.set("m", r.range(1, 70), 1);
    p.set("square", r.range(0, 1), 0);
    p.set("density", r.range(0, 60), 0);
    p.set("mseed", (long)(r.next() >> 16), 0); p.set("vseed", (long)(r.next() >> 16), 0);
    p.set("unsorted", r.range(0, 1), 0);
    static const long coef[] = { 0, 1, -1, 2, -3, 1, 0 };
    p.set("alpha", coef[r.below(7)], 0); p.set("beta", coef[r.below(7)], 0);
    p.set("poison", r.range(0, 2), 0); p.set("lc", r.range(0, 3), 0); p.set("bs", r.range(2, 4), 2);
    p.set("nested", r.chance(0.3) ? 1 : 0, 0);
    p.set("nt", draw_nt(r, 1, 32), 1);
    draw_schedule(r, p.sched, (int)p.get("nt"));
    return p;
}

Result execute(const Plan &p) {
    Result res;
    int t = (int)p.get("type"), nt = (int)p.get("nt");
    sim::RunStatus st = world(nt, p.sched, [&]() {
        Ctx c(p, res, type_names[t]);
        try {
            switch (t) {
                case T_FLOAT: run_scalar<float>(c); break;
                case T_DOUBLE: run_scalar<double>(c); break;
                case T_LDOUBLE: run_scalar<long double>(c); break;
                case T_COMPLEX: run_scalar<std::complex<double> >(c); break;
                case T_BLOCK2: case T_HYBRID: run_block(c); break;
                case T_BLOCK_CRS: run_block_crs(c); break;
                case T_EIGEN_BLOCK: run_eigen_block(c); break;
                case T_STATIC_OPS: run_static_ops<2,2,2>(c); run_static_ops<3,3,3>(c); run_static_ops<2,1,1>(c); run_static_ops<3,1,1>(c); run_static_ops<2,3,2>(c); run_static_ops<4,4,1>(c); run_static_square<2>(c); run_static_square<3>(c); run_static_square<4>(c); break;
                case T_EIGEN_COMPLEX: run_eigen<std::complex<double> >(c); break;
                default: run_eigen<double>(c); break;
            }
        } catch (const std::exception &e) { c.fail("any", "threw", e.what()); }
    });
    res.absorb(st); res.deviations = st.deviations;
    if (st.status) { Violation v; v.oracle = "world-terminates"; v.add("component", type_names[t]); v.add("clause", "deadlock-or-budget"); v.detail = st.blocked; res.fail(v); }
    res.counts[std::string("type_") + type_names[t]]++;
    res.nontrivial = p.get("n") >= 1;
    uint64_t key = sim::hash_combine((uint64_t)p.get("mseed"), (uint64_t)(t * 1000003 + p.get("n") * 1009 + p.get("m"))); key = sim::hash_combine(key, (uint64_t)(nt * 64 + (p.get("alpha") + 3) * 8 + (p.get("beta") + 3))); key = sim::hash_combine(key, (uint64_t)p.get("vseed"));
    res.key = key; res.hash = sim::hash_combine(res.hash, key);
    js::Value s = js::Value::object();
    s.set("value_type_or_backend", type_names[t]); s.set("n", p.get("n")); s.set("m", p.get("square") ? p.get("n") : p.get("m")); s.set("alpha", p.get("alpha")); s.set("beta", p.get("beta"));
    s.set("poison", p.get("poison") == 0 ? "NaN" : p.get("poison") == 1 ? "+Inf" : "-Inf"); s.set("nt", nt); s.set("strategy", sim::strategy_name(p.sched.strategy)); s.set("n_mod_nt", p.get("n") % nt);
    res.sample = s;
    return res;
}
