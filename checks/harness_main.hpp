// Worker main loop shared by all check binaries (include once per binary).
#ifndef AMGSIM_HARNESS_MAIN_HPP
#define AMGSIM_HARNESS_MAIN_HPP
#include "harness.hpp"
#include "../sim/alloc.hpp"
#include <signal.h>
#include <unistd.h>
#include <time.h>
#include <algorithm>
#include <exception>
#include <sys/resource.h>

namespace hz {

// every execution starts from the same simulated-heap state, so that no run depends on what its worker did before
static bool g_process_poisoned = false;
static Result execute_clean(const Plan &p) {
    sim::HeapConfig hc; hc.fill = sim::HF_AA; hc.recycle = 0; hc.shift = 0; hc.seed = p.run;
    sim::heap_configure(hc);
    sim::probes_reset_run();
    Result r = execute(p);
    if (r.poisoned) g_process_poisoned = true;
    return r;
}

static long long g_current_run = -1;
static const char *g_phase = "run";

static double wall_now() { struct timespec ts; clock_gettime(CLOCK_MONOTONIC, &ts); return ts.tv_sec + 1e-9 * ts.tv_nsec; }

static void crash_handler(int sig) {
    char buf[128];
    int n = snprintf(buf, sizeof buf, "\nX %lld signal=%d phase=%s\n", g_current_run, sig, g_phase);
    if (n > 0) { ssize_t w = write(1, buf, (size_t)n); (void)w; }
    _exit(70);
}
static void terminate_handler() {
    char buf[128];
    int n = snprintf(buf, sizeof buf, "\nX %lld terminate phase=%s\n", g_current_run, g_phase);
    if (n > 0) { ssize_t w = write(1, buf, (size_t)n); (void)w; }
    _exit(70);
}

struct Shrinker {
    std::string klass;
    int budget;
    int execs = 0;
    double deadline;
    Result last;
    Shrinker(const std::string &k, int b, double secs) : klass(k), budget(b), deadline(wall_now() + secs) {}
    bool still(const Plan &p) {
        if (g_process_poisoned) return false;      // an abandoned world: stop minimising, report what we have, restart the worker
        if (execs >= budget || wall_now() > deadline) return false;
        ++execs;
        Result r = execute_clean(p);
        for (size_t i = 0; i < r.v.size(); ++i) if (r.v[i].klass() == klass) { last = r; return true; }
        return false;
    }
    // greedy chunked deletion over a vector-like field
    template <class T> void ddmin(Plan &plan, std::vector<T> Plan::*field_dummy, std::vector<T> &vec, size_t keep_min) {
        (void)field_dummy;
        size_t chunk = vec.size() / 2;
        while (chunk >= 1 && vec.size() > keep_min) {
            bool any = false;
            for (size_t start = 0; start < vec.size() && vec.size() > keep_min; ) {
                size_t len = std::min(chunk, vec.size() - start);
                if (vec.size() - len < keep_min) len = vec.size() - keep_min;
                if (!len) break;
                std::vector<T> saved = vec;
                vec.erase(vec.begin() + start, vec.begin() + start + len);
                if (still(plan)) { any = true; }
                else { vec = saved; start += len; }
                if (execs >= budget || wall_now() > deadline) return;
            }
            if (!any) chunk /= 2;
            else chunk = std::min(chunk, vec.size() / 2 ? vec.size() / 2 : (size_t)1);
            if (chunk == 0) break;
        }
    }
    Plan run(Plan plan, const Result &first) {
        last = first;
        // 1. schedule: canonical, else explicit deviations minimised
        if (plan.sched.strategy != sim::CANONICAL) {
            Plan c = plan; c.sched.strategy = sim::CANONICAL; c.sched.deviations.clear(); c.sched.preempt_p = 0;
            if (still(c)) plan = c;
            else if (plan.sched.strategy != sim::EXPLICIT) {
                Plan e = plan; e.sched.strategy = sim::EXPLICIT; e.sched.deviations = first.deviations; e.sched.preempt_p = 0;
                if (still(e)) plan = e;
            }
            if (plan.sched.strategy == sim::EXPLICIT)
                ddmin<sim::deviation>(plan, 0, plan.sched.deviations, 0);
        }
        // 2. ops
        ddmin<Op>(plan, 0, plan.ops, plan.min_ops);
        // 3. params towards their minimum
        for (int round = 0; round < 3; ++round) {
            bool any = false;
            for (size_t i = 0; i < plan.p.size(); ++i) {
                long lo = plan.p[i].lo, v = plan.p[i].v;
                if (v == lo) continue;
                long cands[3] = { lo, lo + (v - lo) / 2, v > lo ? v - 1 : v + 1 };
                for (int k = 0; k < 3; ++k) {
                    if (cands[k] == plan.p[i].v) continue;
                    long old = plan.p[i].v; plan.p[i].v = cands[k];
                    if (still(plan)) { any = true; break; }
                    plan.p[i].v = old;
                }
                if (execs >= budget || wall_now() > deadline) return plan;
            }
            // ops again after params changed
            if (any) ddmin<Op>(plan, 0, plan.ops, plan.min_ops);
            if (!any) break;
        }
        // 4. schedule once more (smaller worlds need fewer deviations)
        if (plan.sched.strategy == sim::EXPLICIT) ddmin<sim::deviation>(plan, 0, plan.sched.deviations, 0);
        return plan;
    }
};

static const Violation* find_class(const Result &r, const std::string &k) {
    for (size_t i = 0; i < r.v.size(); ++i) if (r.v[i].klass() == k) return &r.v[i];
    return 0;
}

static js::Value replay_json(const Plan &plan, const Violation &v, const Result &r, const Plan &orig, int shrink_execs) {
    js::Value j = js::Value::object();
    j.set("check", CHECK_ID);
    j.set("plan", plan.to_json());
    j.set("violation", v.to_json());
    j.set("class", v.klass());
    char hb[32]; snprintf(hb, sizeof hb, "%016llx", (unsigned long long)r.hash);
    j.set("hash", hb);
    j.set("original_plan", orig.to_json());
    j.set("shrink_executions", shrink_execs);
    j.set("case", r.sample);
    return j;
}

static void add_map(std::map<std::string,uint64_t> &into, const std::map<std::string,uint64_t> &from) {
    for (std::map<std::string,uint64_t>::const_iterator it = from.begin(); it != from.end(); ++it) into[it->first] += it->second;
}

static js::Value map_json(const std::map<std::string,uint64_t> &m) {
    js::Value j = js::Value::object();
    for (std::map<std::string,uint64_t>::const_iterator it = m.begin(); it != m.end(); ++it) j.set(it->first, (unsigned long long)it->second);
    return j;
}

static int replay_main(const std::string &path) {
    js::Value j = js::load(path);
    Plan plan = Plan::from_json(j.at("plan"));
    std::string klass = j.get_str("class"), hash = j.get_str("hash");
    g_current_run = (long long)plan.run; g_phase = "replay";
    Result r = execute_clean(plan);
    char hb[32]; snprintf(hb, sizeof hb, "%016llx", (unsigned long long)r.hash);
    const Violation *v = find_class(r, klass);
    if (v && hash == hb) { printf("REPRODUCED property=%s class=%s hash=%s detail=%s\n", CHECK_ID, klass.c_str(), hb, v->detail.c_str()); return 1; }
    if (v) { printf("REPRODUCED-WITH-DIFFERENT-HASH property=%s class=%s hash=%s expected=%s\n", CHECK_ID, klass.c_str(), hb, hash.c_str()); return 2; }
    if (!r.v.empty()) { printf("DIFFERENT-VIOLATION property=%s class=%s expected=%s\n", CHECK_ID, r.v[0].klass().c_str(), klass.c_str()); return 2; }
    printf("NOT-REPRODUCED property=%s hash=%s expected=%s\n", CHECK_ID, hb, hash.c_str());
    return 0;
}

static int worker_main(int argc, char **argv) {
    uint64_t seed = 1; long long from = 0, count = 1, stride = 1; bool thorough = false;
    std::string replay_dir = "replays", known_path, replay_file; double time_budget = 1e18;
    bool print_plan = false; int shrink_budget = 400; double shrink_secs = 60; bool noshrink = false;
    for (int i = 1; i < argc; ++i) {
        std::string a = argv[i];
        #define NEXT (i + 1 < argc ? argv[++i] : "")
        if (a == "--seed") seed = strtoull(NEXT, 0, 10);
        else if (a == "--from") from = atoll(NEXT);
        else if (a == "--count") count = atoll(NEXT);
        else if (a == "--stride") stride = atoll(NEXT);
        else if (a == "--tier") thorough = std::string(NEXT) == "thorough";
        else if (a == "--replay-dir") replay_dir = NEXT;
        else if (a == "--known") known_path = NEXT;
        else if (a == "--replay") replay_file = NEXT;
        else if (a == "--time") time_budget = atof(NEXT);
        else if (a == "--print-plan") print_plan = true;
        else if (a == "--shrink-budget") shrink_budget = atoi(NEXT);
        else if (a == "--shrink-secs") shrink_secs = atof(NEXT);
        else if (a == "--no-shrink") noshrink = true;
        #undef NEXT
    }
    std::set_terminate(terminate_handler);
#if !defined(__SANITIZE_ADDRESS__)
    {
        // signal handlers on an alternate stack (fiber stack overflow must still be reported)
        static char altstack[1 << 16];
        stack_t ss; ss.ss_sp = altstack; ss.ss_size = sizeof altstack; ss.ss_flags = 0; sigaltstack(&ss, 0);
        struct sigaction sa; memset(&sa, 0, sizeof sa); sa.sa_handler = crash_handler; sa.sa_flags = SA_ONSTACK;
        sigaction(SIGSEGV, &sa, 0); sigaction(SIGBUS, &sa, 0); sigaction(SIGFPE, &sa, 0); sigaction(SIGILL, &sa, 0); sigaction(SIGABRT, &sa, 0);
    }
#endif
    if (!replay_file.empty()) return replay_main(replay_file);

    std::vector<Known> known = load_known(known_path);
    double t0 = wall_now();
    unsigned long long evals = 0, nontrivial = 0, ticks = 0, micro = 0, switches = 0, worlds = 0, nviol = 0, nknown = 0;
    std::map<std::string,uint64_t> faults, counts, strategies;
    std::vector<js::Value> samples; js::Value smallest; long smallest_size = -1; js::Value most_faults; uint64_t most_faults_n = 0;
    int rc = 0; unsigned long long nviol_dropped = 0;
    double last_summary = t0, slowest = 0; long long slowest_idx = -1;

    auto emit_summary = [&]() {
        js::Value s = js::Value::object();
        s.set("evaluations", evals); s.set("nontrivial", nontrivial); s.set("ticks", ticks); s.set("micro_ticks", micro);
        s.set("switches", switches); s.set("worlds", worlds); s.set("violations", nviol); s.set("violations_not_reported_individually", nviol_dropped); s.set("known_hits", nknown);
        s.set("faults", map_json(faults)); s.set("counts", map_json(counts)); s.set("strategies", map_json(strategies));
        std::map<std::string,uint64_t> pm; std::vector<std::pair<std::string,uint64_t> > ps = sim::probes_snapshot();
        for (size_t i = 0; i < ps.size(); ++i) pm[ps[i].first] = ps[i].second;
        s.set("probes", map_json(pm));
        js::Value sa = js::Value::array(); for (size_t i = 0; i < samples.size(); ++i) sa.push(samples[i]);
        if (smallest_size >= 0) sa.push(smallest);
        if (most_faults_n) sa.push(most_faults);
        s.set("samples", sa);
        s.set("wall_s", wall_now() - t0); s.set("slowest_run_s", slowest); s.set("slowest_run", slowest_idx);
        printf("S %s\n", s.str().c_str()); fflush(stdout);
    };

    for (long long k = 0; k < count; ++k) {
        long long idx = from + k * stride;
        if (wall_now() - t0 > time_budget) break;
        g_current_run = idx; g_phase = "run";
        printf("b %lld\n", idx); fflush(stdout);
        Plan plan = generate(seed, (uint64_t)idx, thorough);
        plan.seed = seed; plan.run = (uint64_t)idx;
        if (print_plan) { printf("P %s\n", plan.to_json().str().c_str()); fflush(stdout); }
        double t_run = wall_now();
        Result r = execute_clean(plan);
        t_run = wall_now() - t_run;
        if (t_run > slowest) { slowest = t_run; slowest_idx = idx; }
        ++evals; ticks += r.ticks; micro += r.micro; switches += r.switches; worlds += r.worlds;
        add_map(faults, r.faults); add_map(counts, r.counts);
        strategies[sim::strategy_name(plan.sched.strategy)]++;
        if (r.nontrivial) ++nontrivial;
        printf("r %lld %c %016llx %016llx\n", idx, r.nontrivial ? 'n' : 't', (unsigned long long)r.key, (unsigned long long)r.hash);
        if (samples.size() < 3 && r.nontrivial) samples.push_back(r.sample);
        if (r.nontrivial) {
            long sz = (long)r.sample.str().size();
            if (smallest_size < 0 || sz < smallest_size) { smallest_size = sz; smallest = r.sample; }
            uint64_t nf = 0; for (std::map<std::string,uint64_t>::iterator it = r.faults.begin(); it != r.faults.end(); ++it) nf += it->second;
            if (nf > most_faults_n) { most_faults_n = nf; most_faults = r.sample; }
        }
        if (!r.v.empty() && nviol >= 10) { nviol_dropped += r.v.size(); }      // enough replay files from this worker
        else if (!r.v.empty()) {
            // classes already handled in this run
            std::set<std::string> done;
            for (size_t vi = 0; vi < r.v.size(); ++vi) {
                const Violation &v = r.v[vi];
                if (done.count(v.klass())) continue;
                done.insert(v.klass());
                const Known *kn = 0;
                for (size_t q = 0; q < known.size(); ++q) if (known[q].matches(CHECK_ID, v)) { kn = &known[q]; break; }
                if (kn) {
                    ++nknown;
                    js::Value kj = v.to_json(); kj.set("known_id", kn->id); kj.set("run", idx);
                    printf("K %s\n", kj.str().c_str());
                    continue;
                }
                if (g_process_poisoned) {
                    // the world was abandoned: no in-process gate / minimisation; the runner replays the file in a fresh process
                    char path[512]; snprintf(path, sizeof path, "%s/%s-%llu-%lld-%zu.json", replay_dir.c_str(), CHECK_ID, (unsigned long long)seed, idx, vi);
                    js::save(path, replay_json(plan, v, r, plan, 0));
                    js::Value vj = v.to_json(); vj.set("run", idx); vj.set("replay", path); vj.set("class", v.klass());
                    printf("V %s\n", vj.str().c_str()); fflush(stdout);
                    ++nviol; if (rc == 0) rc = 1;
                    continue;
                }
                // gate: same plan, same process, must reproduce with the same hash
                g_phase = "gate";
                Result r2 = execute_clean(plan);
                const Violation *v2 = find_class(r2, v.klass());
                if (g_process_poisoned && v2) { /* reproduced, but this execution abandoned a world: report unshrunk below */ }
                else if (!v2 || r2.hash != r.hash) {
                    js::Value e = js::Value::object(); e.set("error", "nondeterministic"); e.set("run", idx); e.set("class", v.klass());
                    char hb[64]; snprintf(hb, sizeof hb, "%016llx vs %016llx", (unsigned long long)r.hash, (unsigned long long)r2.hash); e.set("hashes", hb);
                    e.set("plan", plan.to_json());
                    printf("E %s\n", e.str().c_str()); fflush(stdout);
                    rc = 2; continue;
                }
                g_phase = "shrink";
                Plan mp = plan; Result mr = r; int sexecs = 0;
                if (!noshrink && !g_process_poisoned) {
                    Shrinker sh(v.klass(), shrink_budget, shrink_secs);
                    mp = sh.run(plan, r);
                    sexecs = sh.execs;
                    if (g_process_poisoned) { mp = plan; mr = r; }           // a candidate abandoned its world: keep the original
                    else {
                        g_phase = "shrink-final";
                        mr = execute_clean(mp);
                        if (!find_class(mr, v.klass()) || g_process_poisoned) { mp = plan; mr = r; }   // be safe
                    }
                }
                const Violation *mv = find_class(mr, v.klass());
                // the minimised violation may match a known finding (signature evaluated on the minimised world)
                const Known *kn2 = 0;
                for (size_t q = 0; q < known.size(); ++q) if (known[q].matches(CHECK_ID, *mv)) { kn2 = &known[q]; break; }
                if (kn2) { ++nknown; js::Value kj = mv->to_json(); kj.set("known_id", kn2->id); kj.set("run", idx); printf("K %s\n", kj.str().c_str()); continue; }
                char path[512]; snprintf(path, sizeof path, "%s/%s-%llu-%lld-%zu.json", replay_dir.c_str(), CHECK_ID, (unsigned long long)seed, idx, vi);
                js::save(path, replay_json(mp, *mv, mr, plan, sexecs));
                js::Value vj = mv->to_json(); vj.set("run", idx); vj.set("replay", path); vj.set("class", mv->klass());
                printf("V %s\n", vj.str().c_str()); fflush(stdout);
                ++nviol; if (rc == 0) rc = 1;
            }
        }
        if (g_process_poisoned) { emit_summary(); printf("Q %lld\n", idx); fflush(stdout); _exit(3); }     // restart me after this run
        double tn = wall_now();
        if (tn - last_summary > 2.0) { last_summary = tn; emit_summary(); }
    }
    emit_summary();
    return rc;
}

} // namespace hz

int main(int argc, char **argv) { return hz::worker_main(argc, argv); }

#endif
