// C12 — the distributed solve is truthful and rank-consistent for any rank count.
// World: an SPD M-matrix, R simulated MPI ranks (fibers), a contiguous row distribution drawn from all compositions
// (empty ranks allowed), a distributed AMG configuration through the MPI run-time wrappers, seeded delivery faults
// (late send-buffer reads, poisoned receive buffers, rendezvous sends, a stalled rank, shuffled completion order).
// Oracles: all ranks terminate (deadlock detector), every rank reports the same (iterations, residual) bits, the
// gathered solution has that true global residual, convergence on the SPD family.
#include "common.hpp"
#include "../sim/mpi.hpp"
#include <amgcl/mpi/util.hpp>
#include <amgcl/mpi/distributed_matrix.hpp>
#include <amgcl/mpi/make_solver.hpp>
#include <amgcl/mpi/amg.hpp>
#include <amgcl/mpi/coarsening/runtime.hpp>
#include <amgcl/mpi/relaxation/runtime.hpp>
#include <amgcl/mpi/solver/runtime.hpp>
#include <amgcl/mpi/direct_solver/runtime.hpp>
#include <amgcl/mpi/partition/runtime.hpp>
#include <amgcl/mpi/subdomain_deflation.hpp>
#include <amgcl/mpi/block_preconditioner.hpp>
#include <amgcl/mpi/direct_solver/skyline_lu.hpp>
#include <Eigen/Dense>
#include <amgcl/preconditioner/runtime.hpp>
#include <set>
#include "c12.hpp"
#include "harness_main.hpp"

const char *CHECK_ID = "C12";
using namespace cm;
using hz::Plan; using hz::Result; using hz::Violation;
typedef amgcl::mpi::distributed_matrix<DBackend> DM;
typedef std::map<std::pair<long,long>, double> Entries;

// ---- recording distributed coarsening: every rank appends the strips it sees to harness-side level records --------
struct LevelRec { Entries A, P, R, Ac; long nA = 0, nC = 0; int calls = 0; double scale = 1; };
static std::vector<LevelRec> g_levels;
static std::vector<int> g_rank_level;          // per rank: how many levels it has recorded
template <class M>
static void add_strip(Entries &e, const M &dm, long row0) {
    const auto &loc = *dm.local(); const auto &rem = *dm.remote(); long col0 = dm.loc_col_shift();
    for (size_t i = 0; i < loc.nrows; ++i) {
        for (ptrdiff_t j = loc.ptr[i]; j < loc.ptr[i+1]; ++j) e[std::make_pair(row0 + (long)i, col0 + (long)loc.col[j])] += loc.val[j];
        for (ptrdiff_t j = rem.ptr[i]; j < rem.ptr[i+1]; ++j) e[std::make_pair(row0 + (long)i, (long)rem.col[j])] += rem.val[j];
    }
}
struct rec_coarsening : amgcl::runtime::mpi::coarsening::wrapper<DBackend> {
    typedef amgcl::runtime::mpi::coarsening::wrapper<DBackend> Base;
    typedef Base::params params;
    float over_interp; bool plain;
    rec_coarsening(params prm = params()) : Base(prm), over_interp(prm.get("over_interp", 1.5f)), plain(prm.get("type", std::string("smoothed_aggregation")) == "aggregation") {}
    std::shared_ptr<DM> coarse_operator(const DM &A, const DM &P, const DM &R) const {
        std::shared_ptr<DM> Ac = Base::coarse_operator(A, P, R);
        int rank = simmpi::world_rank();
        size_t lvl = (size_t)g_rank_level[rank]++;
        if (g_levels.size() <= lvl) g_levels.resize(lvl + 1);
        LevelRec &L = g_levels[lvl];
        add_strip(L.A, A, A.loc_col_shift()); add_strip(L.P, P, A.loc_col_shift()); add_strip(L.R, R, P.loc_col_shift()); add_strip(L.Ac, *Ac, Ac->loc_col_shift());
        L.nA = A.glob_rows(); L.nC = P.glob_cols(); ++L.calls; L.scale = plain ? (double)(1.0f / over_interp) : 1.0;
        return Ac;
    }
};
namespace amgcl { namespace runtime { namespace mpi { namespace coarsening {
inline unsigned block_size(const rec_coarsening &c) { return block_size(static_cast<const rec_coarsening::Base&>(c)); }
} } } }

typedef amgcl::mpi::make_solver<
    amgcl::mpi::amg<DBackend,
        rec_coarsening,
        amgcl::runtime::mpi::relaxation::wrapper<DBackend>,
        amgcl::runtime::mpi::direct::solver<double>,
        amgcl::runtime::mpi::partition::wrapper<DBackend> >,
    amgcl::runtime::mpi::solver::wrapper<DBackend> > Solver;

typedef amgcl::mpi::subdomain_deflation<
    amgcl::runtime::preconditioner<DBackend>,
    amgcl::runtime::mpi::solver::wrapper<DBackend>,
    amgcl::runtime::mpi::direct::solver<double> > SDD;
typedef amgcl::mpi::make_solver<
    amgcl::mpi::block_preconditioner< amgcl::runtime::preconditioner<DBackend> >,
    amgcl::runtime::mpi::solver::wrapper<DBackend> > BPSolver;
enum { K_MPI_AMG = 0, K_SDD = 1, K_BLOCK = 2, K_DIRECT = 3, K_BLOCKVAL = 4 };
static const char *kind_names[] = { "mpi::make_solver", "mpi::subdomain_deflation", "mpi::block_preconditioner", "mpi::direct::skyline_lu", "mpi::make_solver<block values>" };
static const char *local_coarsening_names[] = { "ruge_stuben", "aggregation", "smoothed_aggregation", "smoothed_aggr_emin" };

static const char *coarsening_names[] = { "aggregation", "smoothed_aggregation" };
static const char *relax_names[] = { "gauss_seidel", "ilu0", "iluk", "ilup", "ilut", "damped_jacobi", "spai0", "spai1", "chebyshev" };
static const char *solver_names[] = { "cg", "bicgstab", "bicgstabl", "gmres", "lgmres", "fgmres", "idrs", "richardson" };

using c12::draw_partition;

Plan generate(uint64_t seed, uint64_t run, bool thorough) {
    sim::rng r(seed, "world", run);
    Plan p;
    p.set("R", r.range(1, 8), 1);
    static const int fams[] = { gen::F_GRID2D, gen::F_GRID2D, gen::F_GRAPH, gen::F_GRID3D, gen::F_GRID1D };
    int fam = fams[r.below(5)]; p.set("family", fam, fam);
    p.set("n", r.chance(0.6) ? r.range(20, 120) : r.range(80, thorough ? 900 : 350), 8);
    p.set("mseed", (long)(r.next() >> 16), 0); p.set("pseed", (long)(r.next() >> 16), 0); p.set("vseed", (long)(r.next() >> 16), 0);
    p.set("contrast", r.range(0, 1), 0);
    p.set("allow_empty", r.chance(0.4) ? 1 : 0, 0);
    p.set("coarsening", r.range(0, 1), 0); p.set("relax", r.range(0, 8), 0); p.set("solver", r.range(0, 7), 0);
    p.set("coarse_enough", r.range(2, 40), 2);
    p.set("repart", r.range(0, 1), 0); p.set("min_per_proc", r.range(2, 60), 2); p.set("shrink_ratio", r.range(2, 8), 2);
    p.set("npre", r.range(1, 2), 1);
    p.set("late_send_read", r.range(0, 1), 0); p.set("recv_poison", r.range(0, 1), 0); p.set("rendezvous", r.range(0, 1), 0);
    p.set("fseed", (long)(r.next() >> 16), 0);
    p.set("nt", r.chance(0.7) ? 1 : 2, 1);
    { static const long nsc[] = { 1, 1, 2, 2, 2, 2, 3 }; p.set("nullspace", r.chance(0.35) ? nsc[r.below(7)] : 0, 0); }      // near-null-space vectors handed to the distributed coarsening
    { double u = r.unit(); p.set("kind", u < 0.58 ? K_MPI_AMG : u < 0.70 ? K_SDD : u < 0.81 ? K_BLOCK : u < 0.88 ? K_DIRECT : K_BLOCKVAL, 0); }
    if (p.get("kind") == K_DIRECT) p.set("n", r.range(8, 160), 8);
    p.set("local_relax_only", r.chance(0.4) ? 1 : 0, 0); p.set("local_coarsening", r.range(0, 2), 0); p.set("ndv", r.range(1, 2), 1);      // (no energy-minimising coarsening inside subdomains: its degenerate tiny levels are recorded under C02)
    p.set("aggr_block", 0, 0);      // pointwise (block_size = 2) aggregation of a scalar problem is not a meaningful configuration (singular coarse levels): only from an explicit plan
    draw_schedule(r, p.sched, (int)p.get("R"));
    draw_vary_params(r, p, 0.3);
    p.set("rebuild", r.chance(0.15) ? 1 : 0, 0);
    p.set("tiny_rhs", r.chance(0.08) ? 1 : 0, 0);      // mpi::amg::rebuild with 2*A, compared with a fresh solver for 2*A
    return p;
}

Result execute(const Plan &p) {
    Result res;
    if (p.get("kind", K_MPI_AMG) == K_BLOCKVAL) { c12::blockval_world(p, res); return res; }
    int R = (int)p.get("R");
    gen::Csr A = gen::make_matrix((int)p.get("family"), p.get("n"), (uint64_t)p.get("mseed"), (int)p.get("contrast"), 1);
    const long n = A.n;
    const long kind = p.get("kind", K_MPI_AMG);
    sim::rng pr((uint64_t)p.get("pseed"), "partition");
    // near-null-space vectors only with plain aggregation: there P is the tentative prolongation itself, so the aggregates (and the
    // recorded small-aggregate finding) can be read off the recorded P; with smoothed aggregation they cannot
    const long nscols = (n >= R && p.get("coarsening") == 0 && kind == K_MPI_AMG) ? p.get("nullspace", 0) : 0;
    // (a rank without rows cannot describe its slice of the near-null-space vectors through the parameter tree: no empty ranks then)
    // (subdomain deflation needs a non-empty subdomain per rank: an empty one adds a zero row to the deflated matrix)
    std::vector<long> rp = draw_partition(pr, n, R, (p.get("allow_empty") != 0 && !nscols && kind != K_SDD) || n < R);
    // pointwise aggregation with block_size 2: every rank must own an even number of rows
    const bool aggr_block = p.get("aggr_block", 0) && kind == K_MPI_AMG && nscols == 0 && n % 2 == 0 && n >= 2 * R;
    if (aggr_block) { for (int q = 1; q < R; ++q) rp[q] -= rp[q] % 2; }
    std::vector<double> NB((size_t)n * std::max<long>(nscols, 1));
    for (long i = 0; i < n; ++i) for (long k = 0; k < nscols; ++k) NB[(size_t)i * nscols + k] = k == 0 ? 1.0 : std::pow((double)(i + 1) / n, (double)k) + 0.25 * std::sin((double)(i * (k + 1)));
    std::vector<double> f = gen::make_vector(n, (uint64_t)p.get("vseed"), 0);
    // a tiny but non-zero right-hand side, ||f|| a few machine epsilons times a row count between 1 and n: every relative criterion
    // and every "is the right-hand side zero" shortcut must come to the same answer on all ranks whatever their local sizes are
    if (p.get("tiny_rhs", 0) && n >= 1) { long double s2 = 0; for (long i = 0; i < n; ++i) s2 += (long double)f[i] * f[i]; double nf = (double)std::sqrt((double)s2);
        if (nf > 0) { double target = 4.440892098500626e-16 * (1.0 + (double)((p.get("vseed") >> 3) % n)) * 1.03; for (long i = 0; i < n; ++i) f[i] *= target / nf; } }
    long coarsening = p.get("coarsening"), relax = p.get("relax"), solver = p.get("solver");
    std::string nsclass = "none";      // none | ok | deficient-aggregate (an aggregate with fewer points than near-null-space vectors)
    auto sig = [&](const char *oracle, const char *clause, const std::string &detail) {
        Violation v; v.oracle = oracle; v.add("component", kind_names[kind]); v.add("clause", clause); v.add("coarsening", coarsening_names[coarsening]); v.add("relax", relax_names[relax]); v.add("solver", solver_names[solver]);
        v.add("ranks", R >= 2 ? "R>=2" : "R=1"); v.add("nullspace", nsclass); v.detail = detail; return v; };
    boost::property_tree::ptree prm;
    prm.put("precond.coarsening.type", coarsening_names[coarsening]);
    prm.put("precond.relax.type", relax_names[relax]);
    prm.put("precond.coarse_enough", p.get("coarse_enough"));
    prm.put("precond.npre", p.get("npre")); prm.put("precond.npost", p.get("npre"));
    prm.put("precond.direct.type", "skyline_lu");
    if (aggr_block) prm.put("precond.coarsening.aggr.block_size", 2);
    prm.put("precond.repart.type", "merge");
    // (near-null-space vectors + repartitioning is a recorded defect - the carried coarse vectors are not redistributed, the next
    //  level reads them out of bounds: C12-nullspace-not-repartitioned - such worlds are only run from an explicit replay plan)
    const bool repart_on = p.get("repart") != 0 && !(nscols > 0 && !p.get("force_nullspace_repart", 0));
    prm.put("precond.repart.enable", repart_on); prm.put("precond.repart.min_per_proc", p.get("min_per_proc")); prm.put("precond.repart.shrink_ratio", p.get("shrink_ratio"));
    // (with near-null-space vectors an aggregate of <= c points yields c coarse unknowns: the level sizes need not decrease and
    //  mpi::amg has no other stop than coarse_enough / max_levels - bound the depth so that such a world costs seconds, not minutes)
    if (nscols > 0) prm.put("precond.max_levels", 2 + (p.get("vseed") & 1));
    prm.put("solver.type", solver_names[solver]); prm.put("solver.maxiter", 200);
    // seeded variation of the remaining parameters (cycle shape, coarsest-level treatment, component parameters); the convergence
    // promise is for the defaults, so it is not judged in these worlds (termination, rank agreement, truthfulness, structure are)
    std::string varied;
    if (p.get("vp", 0) && kind == K_MPI_AMG && nscols == 0) {
        sim::rng vr((uint64_t)p.get("vp_seed", 0), "c12vary");
        if (vr.chance(0.4)) { prm.put("precond.ncycle", 2); prm.put("precond.max_levels", 4); varied += "ncycle=2 max_levels=4 "; }
        if (vr.chance(0.3)) { prm.put("precond.pre_cycles", 2); varied += "pre_cycles=2 "; }
        if (vr.chance(0.3)) { prm.put("precond.npost", 3 - p.get("npre")); varied += "npost!=npre "; }
        if (vr.chance(0.25)) { prm.put("precond.direct_coarse", false); varied += "direct_coarse=false "; }
        if (vr.chance(0.25)) { long ml = vr.range(1, 3); prm.put("precond.max_levels", ml); varied += fmt("max_levels=%ld ", ml); }
        if (vr.chance(0.3)) { prm.put("precond.allow_rebuild", true); varied += "allow_rebuild "; }
        varied += apply_vary_params(p, prm, "precond.coarsening.", coarsening_names[coarsening], "precond.relax.", relax_names[relax], "solver.", solver_names[solver], false);
    }
    const double eps_strong_used = prm.get("precond.coarsening.aggr.eps_strong", 0.08);      // a double parameter in the distributed PMIS
    std::vector<double> x(n, 0.0); std::vector<double> iters(R, -1), resid(R, -1);
    // history on one distributed hierarchy: rebuild with the matrix scaled by two (the transfer operators of a fresh hierarchy for 2*A
    // are those of A, so the rebuilt object must act like a fresh one built for 2*A)
    // (not with the threshold-based ILUT, the statement's own exception to exact power-of-two scaling)
    const bool do_rebuild = p.get("rebuild", 0) != 0 && kind == K_MPI_AMG && nscols == 0 && relax != 4;
    if (do_rebuild) prm.put("precond.allow_rebuild", true);
    std::vector<double> x2(n, 0.0), x3(n, 0.0), it2(R, -1), rs2(R, -1), it3(R, -1), rs3(R, -1);
    bool any_empty = false; for (int r = 0; r < R; ++r) if (rp[r+1] == rp[r]) any_empty = true;

    g_levels.clear(); g_rank_level.assign(R, 0);
    simmpi::Config mc; mc.ranks = R; mc.nt = (int)p.get("nt"); mc.late_send_read = p.get("late_send_read") != 0; mc.recv_poison = p.get("recv_poison") != 0; mc.rendezvous = p.get("rendezvous") != 0; mc.seed = (uint64_t)p.get("fseed");
    simmpi::Outcome out = simmpi::run(mc, p.sched, [&](int rank) {
        amgcl::mpi::communicator comm(MPI_COMM_WORLD);
        long r0 = rp[rank], r1 = rp[rank+1];
        gen::Csr S; S.n = r1 - r0; S.m = n; S.ptr.push_back(0);
        for (long i = r0; i < r1; ++i) { for (ptrdiff_t j = A.ptr[i]; j < A.ptr[i+1]; ++j) { S.col.push_back(A.col[j]); S.val.push_back(A.val[j]); } S.ptr.push_back((ptrdiff_t)S.col.size()); }
        auto dA = std::make_shared<DM>(comm, std::make_tuple((size_t)S.n, std::ref(S.ptr), std::ref(S.col), std::ref(S.val)));
        if (kind == K_DIRECT) {
            // the distributed direct solver on its own: consolidation on the master rank(s), solve, scatter; twice on one object
            amgcl::mpi::direct::skyline_lu<double> D(comm, *dA);
            std::vector<double> fl(f.begin() + r0, f.begin() + r1), xl(r1 - r0, std::numeric_limits<double>::quiet_NaN()), gl(fl), yl(r1 - r0, 0.0);
            for (size_t q2 = 0; q2 < gl.size(); ++q2) gl[q2] = 1.0 + 0.5 * gl[q2];
            D(gl, yl); D(fl, xl);
            iters[rank] = 0; resid[rank] = 0;
            for (long i = r0; i < r1; ++i) x[i] = xl[i - r0];
            return;
        }
        if (kind != K_MPI_AMG) {
            boost::property_tree::ptree q; const char *pre = kind == K_SDD ? "local." : "precond.";
            if (p.get("local_relax_only")) { q.put(std::string(pre) + "class", "relaxation"); q.put(std::string(pre) + "type", relax_names[relax]); }
            else { q.put(std::string(pre) + "class", "amg"); q.put(std::string(pre) + "coarsening.type", local_coarsening_names[p.get("local_coarsening")]); q.put(std::string(pre) + "relax.type", relax_names[relax]); q.put(std::string(pre) + "coarse_enough", p.get("coarse_enough")); }
            std::vector<double> fl(f.begin() + r0, f.begin() + r1), xl(r1 - r0, 0.0); size_t it; double rs;
            if (kind == K_SDD) {
                long minloc = n; for (int q2 = 0; q2 < R; ++q2) minloc = std::min(minloc, rp[q2+1] - rp[q2]);
                const long nloc = r1 - r0; const long ndv = minloc >= 2 ? p.get("ndv", 1) : 1;      // the deflation vectors of a subdomain must be independent
                std::function<double(ptrdiff_t, unsigned)> dv = [nloc](ptrdiff_t i, unsigned j) { return j == 0 ? 1.0 : (double)(i + 1) / (double)(nloc > 0 ? nloc : 1); };
                q.put("isolver.type", solver_names[solver]); q.put("isolver.maxiter", 200); q.put("dsolver.type", "skyline_lu");
                q.put("num_def_vec", ndv); q.put("def_vec", static_cast<void*>(&dv));
                size_t chunk = (size_t)S.n;
                SDD solve(comm, std::tie(chunk, S.ptr, S.col, S.val), q);
                std::tie(it, rs) = solve(fl, xl);
            } else {
                q.put("solver.type", solver_names[solver]); q.put("solver.maxiter", 200);
                if (p.get("vseed") & 1) { BPSolver solve(comm, dA, q); std::tie(it, rs) = solve(fl, xl); }
                else { size_t chunk = (size_t)S.n; BPSolver solve(comm, std::tie(chunk, S.ptr, S.col, S.val), q); std::tie(it, rs) = solve(fl, xl); }      // both constructors: distributed matrix / local strip
            }
            iters[rank] = (double)it; resid[rank] = rs;
            for (long i = r0; i < r1; ++i) x[i] = xl[i - r0];
            return;
        }
        boost::property_tree::ptree lprm = prm;
        if (nscols > 0) { lprm.put("precond.coarsening.aggr.nullspace.cols", nscols); lprm.put("precond.coarsening.aggr.nullspace.rows", r1 - r0); lprm.put("precond.coarsening.aggr.nullspace.B", &NB[(size_t)r0 * nscols]); }
        Solver solve(comm, dA, lprm);
        std::vector<double> fl(f.begin() + r0, f.begin() + r1), xl(r1 - r0, 0.0);
        size_t it; double rs; std::tie(it, rs) = solve(fl, xl);
        iters[rank] = (double)it; resid[rank] = rs;
        for (long i = r0; i < r1; ++i) x[i] = xl[i - r0];
        if (do_rebuild) {
            std::vector<double> v2(S.val); for (size_t q2 = 0; q2 < v2.size(); ++q2) v2[q2] *= 2;
            auto dA2 = std::make_shared<DM>(comm, std::make_tuple((size_t)S.n, std::ref(S.ptr), std::ref(S.col), std::ref(v2)));
            solve.precond().rebuild(dA2);
            std::vector<double> x2l(r1 - r0, 0.0); std::tie(it, rs) = solve(fl, x2l); it2[rank] = (double)it; rs2[rank] = rs;
            for (long i = r0; i < r1; ++i) x2[i] = x2l[i - r0];
            auto dA3 = std::make_shared<DM>(comm, std::make_tuple((size_t)S.n, std::ref(S.ptr), std::ref(S.col), std::ref(v2)));
            Solver fresh(comm, dA3, lprm);
            std::vector<double> x3l(r1 - r0, 0.0); std::tie(it, rs) = fresh(fl, x3l); it3[rank] = (double)it; rs3[rank] = rs;
            for (long i = r0; i < r1; ++i) x3[i] = x3l[i - r0];
        }
    });
    res.absorb(out.sched); res.deviations = out.sched.deviations;
    if (getenv("C12_DEBUG")) for (size_t l = 0; l < g_levels.size(); ++l) { const LevelRec &L = g_levels[l]; std::map<long, std::set<long> > mem; for (Entries::const_iterator q = L.P.begin(); q != L.P.end(); ++q) mem[q->first.second / std::max<long>(nscols, 1)].insert(q->first.first);
        std::map<size_t,int> hist; for (auto &m : mem) hist[m.second.size()]++; fprintf(stderr, "level %zu: nA=%ld nC=%ld calls=%d aggregates=%zu sizes:", l, L.nA, L.nC, L.calls, mem.size()); for (auto &h : hist) fprintf(stderr, " %zux%d", h.first, h.second); fprintf(stderr, "\n"); }
    if (nscols > 0) {
        nsclass = "ok";
        for (size_t l = 0; l < g_levels.size(); ++l) if (g_levels[l].calls == R) { std::map<long, std::set<long> > members; for (Entries::const_iterator q = g_levels[l].P.begin(); q != g_levels[l].P.end(); ++q) members[q->first.second / nscols].insert(q->first.first);
            for (auto &m : members) if ((long)m.second.size() < nscols) nsclass = "deficient-aggregate"; }
        if (nsclass != "ok") res.counts["nullspace_worlds_with_deficient_aggregate"]++; else res.counts["nullspace_worlds"]++;
    }
    res.faults["late_send_read"] += out.stats.late_reads; res.faults["late_read_changed_payload"] += out.stats.late_read_changed_payload; res.faults["recv_poison"] += out.stats.recv_poisoned;
    res.faults["rendezvous_send"] += out.stats.rendezvous_sends; if (p.sched.strategy == sim::STARVE) res.faults["rank_stall"]++;
    res.counts["messages"] += out.stats.messages; res.counts["collectives"] += out.stats.collectives; res.counts["comm_splits"] += out.stats.comm_splits;
    if (any_empty) res.counts["empty_rank"]++;
    if (repart_on) res.counts["repartition_enabled"]++;
    bool threw = false;
    if (out.sched.status == sim::ST_DEADLOCK) { std::string ex; for (int r = 0; r < R; ++r) if (!out.rank_exception[r].empty()) ex += fmt("rank %d threw: %s; ", r, out.rank_exception[r].c_str()); res.fail(sig("all-ranks-terminate", "deadlock", out.sched.blocked + ex)); }
    else if (out.sched.status) res.fail(sig("all-ranks-terminate", "tick-budget", out.sched.blocked));
    else {
        bool all_same_exc = true; for (int r = 0; r < R; ++r) if (out.rank_exception[r].empty() || out.rank_exception[r] != out.rank_exception[0]) all_same_exc = false;
        // (varied parameters may be unusable for the system at hand - IDR(s) with s > n, ...: an exception raised identically on every
        //  rank is a truthfully reported failure there; with default parameters every exception counts)
        // (a Krylov breakdown - "Zero rho in BiCGStab", "IDR(s) breakdown: ..." - raised identically on every rank is the library's documented
        //  way to end such a solve: consistent termination without a claim of convergence, not a violation)
        const bool breakdown = all_same_exc && (out.rank_exception[0].find("BiCGStab") != std::string::npos || out.rank_exception[0].find("IDR(s) breakdown") != std::string::npos);
        if (breakdown) { threw = true; res.counts["consistent_krylov_breakdown"]++; }
        else if (all_same_exc && !varied.empty()) { threw = true; res.counts["consistent_exception_in_varied_world"]++; }
        else for (int r = 0; r < R; ++r) if (!out.rank_exception[r].empty()) { threw = true; res.fail(sig("no-exception", "rank-threw", fmt("rank %d: %s", r, out.rank_exception[r].c_str()))); break; }
        if (!threw) {
            for (int r = 1; r < R; ++r) if (!bits_equal(iters[r], iters[0]) || !bits_equal(resid[r], resid[0])) { res.fail(sig("rank-consistent", "same-iterations-and-residual", fmt("rank 0: %.0f iterations, residual %.17g; rank %d: %.0f, %.17g", iters[0], resid[0], r, iters[r], resid[r]))); break; }
            long double rr = 0, ff = 0, ainf = 0, xinf = 0, finf = 0;
            for (long i = 0; i < n; ++i) { long double t = f[i], rs = 0; for (ptrdiff_t j = A.ptr[i]; j < A.ptr[i+1]; ++j) { t -= (long double)A.val[j] * x[A.col[j]]; rs += std::fabs((long double)A.val[j]); } rr += t * t; ff += (long double)f[i] * f[i]; ainf = std::max(ainf, rs); xinf = std::max(xinf, (long double)std::fabs(x[i])); finf = std::max(finf, (long double)std::fabs(f[i])); }
            double rstar = (double)std::sqrt((double)(rr / (ff > 0 ? ff : 1))), tol = 1e-8;
            if (kind == K_DIRECT) {
                // exact solution of the gathered system (dense LU in the harness), whichever ranks hold the factorisation
                Eigen::MatrixXd Dm = Eigen::MatrixXd::Zero(n, n); Eigen::VectorXd fv(n); for (long i = 0; i < n; ++i) { fv[i] = f[i]; for (ptrdiff_t j = A.ptr[i]; j < A.ptr[i+1]; ++j) Dm(i, A.col[j]) += A.val[j]; }
                Eigen::VectorXd xe = Dm.partialPivLu().solve(fv); double worst = 0, sc = 1e-300; for (long i = 0; i < n; ++i) { worst = std::max(worst, std::fabs(x[i] - xe[i])); sc = std::max(sc, std::fabs(xe[i])); }
                if (!(worst <= 1e-9 * sc)) res.fail(sig("direct-solver-exact", "gathered-system", fmt("distributed skyline_lu differs from the dense solution by %.3g (scale %.3g, n=%ld, %d ranks)", worst, sc, n, R)));
                res.counts["direct_solver_worlds"]++;
            }
            long maxrow = 1; for (long i = 0; i < n; ++i) maxrow = std::max<long>(maxrow, A.ptr[i+1] - A.ptr[i]);
            double delta = (double)(200.0L * (iters[0] + 1) * 3.0L * (maxrow + 1) * 1.2e-16L * (ainf * xinf / (finf > 0 ? finf : 1) + 1));      // as in C01: row length, not n
            bool finite = std::isfinite(rstar) && std::isfinite((double)xinf);
            if (getenv("C12_DEBUG") && kind != K_MPI_AMG) fprintf(stderr, "kind %ld R %d ndv %ld relax_only %ld reported %.3g true %.3g delta %.3g iters %.0f\n", kind, R, p.get("ndv"), p.get("local_relax_only"), resid[0], rstar, delta, iters[0]);
            if (kind == K_DIRECT) { /* judged above */ }
            else if (!finite) { if (std::isfinite(resid[0]) && resid[0] < 1) res.fail(sig("truthful-residual", "nonfinite-solution-reported-finite", fmt("gathered solution is not finite, reported residual %.3g", resid[0]))); res.counts["nonfinite_outcomes"]++; }
            else if (delta < 0.1 * tol) {
                if (resid[0] < tol && !(rstar < 1.05 * tol + delta)) res.fail(sig("truthful-residual", "reported-converged-but-is-not", fmt("reported %.6g after %.0f iterations, true global residual %.6g", resid[0], iters[0], rstar)));
                else if (!(resid[0] < tol && rstar < tol) && !(std::fabs(resid[0] - rstar) <= 0.05 * std::max(resid[0], rstar) + delta)) res.fail(sig("truthful-residual", "reported-differs-from-true", fmt("reported %.6g, true %.6g after %.0f iterations", resid[0], rstar, iters[0])));
                res.counts["truthfulness_evaluated"]++;
            }
            if (do_rebuild) {
                res.counts["rebuild_worlds"]++;
                for (int r = 1; r < R; ++r) if (!bits_equal(it2[r], it2[0]) || !bits_equal(rs2[r], rs2[0])) { res.fail(sig("rank-consistent", "same-iterations-and-residual-after-rebuild", fmt("rank 0: %.0f iterations, residual %.17g; rank %d: %.0f, %.17g", it2[0], rs2[0], r, it2[r], rs2[r]))); break; }
                // the rebuilt hierarchy acts like a fresh one for 2*A: not bit for bit (the recomputed coarse operators are assembled from
                // transfer operators that already live in the backend, their rows come out in another order), but a rebuilt level that kept
                // its old smoother or coarse factors shows as a different iteration count
                if (rs2[0] < tol && rs3[0] < tol && std::fabs(it2[0] - it3[0]) > 2 + 0.25 * std::min(it2[0], it3[0]))
                    res.fail(sig("rebuilt-acts-like-fresh", "rebuild(2A)-vs-fresh(2A)-iterations", fmt("rebuilt: %.0f iterations, residual %.3g; fresh solver for the same matrix: %.0f iterations, residual %.3g", it2[0], rs2[0], it3[0], rs3[0])));
                else if ((rs2[0] < tol) != (rs3[0] < tol) && std::isfinite(rs2[0]) && std::isfinite(rs3[0]) && std::max(rs2[0], rs3[0]) > 100 * tol)
                    res.fail(sig("rebuilt-acts-like-fresh", "rebuild(2A)-vs-fresh(2A)-convergence", fmt("rebuilt: %.0f iterations, residual %.3g; fresh solver for the same matrix: %.0f iterations, residual %.3g", it2[0], rs2[0], it3[0], rs3[0])));
                // the rebuilt solver is truthful about the new system
                long double r2 = 0; bool fin2 = true; for (long i = 0; i < n; ++i) { long double t = f[i]; for (ptrdiff_t j = A.ptr[i]; j < A.ptr[i+1]; ++j) t -= 2.0L * A.val[j] * x2[A.col[j]]; r2 += t * t; if (!std::isfinite(x2[i])) fin2 = false; }
                double rstar2 = (double)std::sqrt((double)(r2 / (ff > 0 ? ff : 1)));
                if (fin2 && std::isfinite(rstar2) && delta < 0.1 * tol && rs2[0] < tol && !(rstar2 < 1.05 * tol + 4 * delta)) res.fail(sig("truthful-residual", "reported-converged-but-is-not-after-rebuild", fmt("reported %.6g after %.0f iterations, true global residual %.6g for the rebuilt system", rs2[0], it2[0], rstar2)));
            }
            // (the stationary Richardson iteration must not diverge - its rate with block-local smoothers can be slow -, the Krylov methods must reach the tolerance)
            // ---- distributed coarsening structure (recorded through the policy seam), levels small enough for a dense model
            std::vector<double> ns_cur; bool ns_ok = false;
            for (size_t l = 0; l < g_levels.size(); ++l) {
                const LevelRec &L = g_levels[l];
                if (L.calls != R) { res.fail(sig("coarsening-structure", "every-rank-coarsens-every-level", fmt("level %zu: %d of %d ranks called coarse_operator", l, L.calls, R))); break; }
                if (L.nA > 260) { ns_ok = false; continue; }
                res.counts["distributed_levels_checked"]++;
                const long nA = L.nA, nC = L.nC;
                // R is the transpose of P
                bool rt = L.R.size() == L.P.size(); if (rt) for (Entries::const_iterator it = L.P.begin(); it != L.P.end(); ++it) { Entries::const_iterator q = L.R.find(std::make_pair(it->first.second, it->first.first)); if (q == L.R.end() || (q->second != it->second && !(q->second != q->second && it->second != it->second))) { rt = false; break; } }
                if (!rt) { std::string why = fmt("level %zu: %zu entries in P, %zu in R", l, L.P.size(), L.R.size());
                    for (Entries::const_iterator it = L.P.begin(); it != L.P.end(); ++it) { Entries::const_iterator q = L.R.find(std::make_pair(it->first.second, it->first.first)); if (q == L.R.end() || (q->second != it->second && !(q->second != q->second && it->second != it->second))) { why += fmt("; P(%ld,%ld) = %.17g, R(%ld,%ld) %s", it->first.first, it->first.second, it->second, it->first.second, it->first.first, q == L.R.end() ? "is not stored" : fmt("= %.17g", q->second).c_str()); break; } }
                    res.fail(sig("coarsening-structure", "R=P^T", why)); }
                // A_c = R*A*P (divided by the float over-interpolation factor for plain aggregation)
                std::vector<long double> AP((size_t)nA * nC, 0.0L), AbsAP((size_t)nA * nC, 0.0L);
                for (Entries::const_iterator a = L.A.begin(); a != L.A.end(); ++a) for (Entries::const_iterator q = L.P.lower_bound(std::make_pair(a->first.second, -1L)); q != L.P.end() && q->first.first == a->first.second; ++q) { AP[(size_t)a->first.first * nC + q->first.second] += (long double)a->second * q->second; AbsAP[(size_t)a->first.first * nC + q->first.second] += std::fabs((long double)a->second * q->second); }
                std::vector<long double> RAP((size_t)nC * nC, 0.0L), Bnd((size_t)nC * nC, 0.0L);
                for (Entries::const_iterator rr2 = L.R.begin(); rr2 != L.R.end(); ++rr2) for (long c = 0; c < nC; ++c) { RAP[(size_t)rr2->first.first * nC + c] += (long double)rr2->second * AP[(size_t)rr2->first.second * nC + c]; Bnd[(size_t)rr2->first.first * nC + c] += std::fabs((long double)rr2->second) * AbsAP[(size_t)rr2->first.second * nC + c]; }
                std::vector<double> Dn((size_t)nC * nC, 0.0); for (Entries::const_iterator c = L.Ac.begin(); c != L.Ac.end(); ++c) if (c->first.first < nC && c->first.second < nC) Dn[(size_t)c->first.first * nC + c->first.second] += c->second;
                for (long i = 0; i < nC * nC; ++i) { long double want = RAP[i] * L.scale, tl = 64 * 1.2e-16L * Bnd[i] * L.scale + 1e-300L; if (std::fabs((long double)Dn[i] - want) > tl) { res.fail(sig("coarsening-structure", "A_c=R*A*P", fmt("level %zu: A_c(%ld,%ld) = %.17g, R*A*P*%g = %.17Lg", l, i / nC, i % nC, Dn[i], L.scale, want))); break; } }
                // aggregates: every unknown with a strong neighbour lies in an aggregate (non-empty row of P); for plain aggregation
                // exactly one unit entry per such row; no empty aggregate (every column of P non-empty)
                std::vector<double> dia(nA, 0.0); for (Entries::const_iterator a = L.A.begin(); a != L.A.end(); ++a) if (a->first.first == a->first.second) dia[a->first.first] = a->second;
                std::vector<char> strong(nA, 0); const double eps2 = eps_strong_used * eps_strong_used;
                for (Entries::const_iterator a = L.A.begin(); a != L.A.end(); ++a) { long i = a->first.first, c = a->first.second; if (i != c && c < nA && eps2 * dia[i] * dia[c] < a->second * a->second) strong[i] = 1; }
                std::vector<int> rowcnt(nA, 0), colcnt(nC, 0); bool unit = true;
                for (Entries::const_iterator q = L.P.begin(); q != L.P.end(); ++q) { rowcnt[q->first.first]++; if (q->first.second < nC) colcnt[q->first.second]++; if (q->second != 1.0) unit = false; }
                // (pointwise aggregation decides strength on the block norms: the scalar criterion does not apply there)
                if (!aggr_block) for (long i = 0; i < nA; ++i) if (strong[i] && rowcnt[i] == 0) { res.fail(sig("coarsening-structure", "non-isolated-unknown-in-an-aggregate", fmt("level %zu: unknown %ld of %ld has a strong neighbour but belongs to no aggregate (empty row of P)", l, i, nA))); break; }
                if (coarsening == 0 && nscols > 0) {
                    // near-null space reproduced across rank boundaries: every supplied vector lies in the range of the tentative
                    // prolongation on the aggregated rows, P (P^T B) = B (the coarse vectors are P^T B when P has orthonormal columns,
                    // which is what lets the chain continue to the next level)
                    if (l == 0) { ns_cur = NB; ns_ok = true; }
                    if (ns_ok && (long)ns_cur.size() == nA * nscols) {
                        for (long i = 0; i < nA; ++i) if (rowcnt[i] != 0 && rowcnt[i] != nscols) { res.fail(sig("coarsening-structure", "nullspace-row-shape", fmt("level %zu: unknown %ld has %d entries in P, expected %ld", l, i, rowcnt[i], nscols))); break; }
                        std::vector<long double> Bc((size_t)nC * nscols, 0.0L), PB((size_t)nA * nscols, 0.0L), G((size_t)nC * nC, 0.0L);
                        for (Entries::const_iterator q = L.P.begin(); q != L.P.end(); ++q) if (q->first.second < nC) for (long k = 0; k < nscols; ++k) Bc[(size_t)q->first.second * nscols + k] += (long double)q->second * ns_cur[(size_t)q->first.first * nscols + k];
                        for (Entries::const_iterator q = L.P.begin(); q != L.P.end(); ++q) if (q->first.second < nC) for (long k = 0; k < nscols; ++k) PB[(size_t)q->first.first * nscols + k] += (long double)q->second * Bc[(size_t)q->first.second * nscols + k];
                        double worst = 0, sc = 0; long wi = -1; for (long i = 0; i < nA; ++i) if (rowcnt[i]) for (long k = 0; k < nscols; ++k) { double b = ns_cur[(size_t)i * nscols + k], d = std::fabs((double)PB[(size_t)i * nscols + k] - b); sc = std::max(sc, std::fabs(b)); if (d > worst) { worst = d; wi = i; } }
                        // P^T P = I decides whether P^T B really is the coarse near-null space the library carries on
                        bool ortho = true; { std::map<long, std::vector<std::pair<long,double> > > rows; for (Entries::const_iterator q = L.P.begin(); q != L.P.end(); ++q) rows[q->first.first].push_back(std::make_pair(q->first.second, q->second));
                            for (auto &rw : rows) for (auto &a : rw.second) for (auto &b2 : rw.second) if (a.first < nC && b2.first < nC) G[(size_t)a.first * nC + b2.first] += (long double)a.second * b2.second;
                            for (long a = 0; a < nC && ortho; ++a) for (long b2 = 0; b2 < nC; ++b2) if (std::fabs((double)G[(size_t)a * nC + b2] - (a == b2 ? 1.0 : 0.0)) > 1e-9) { ortho = false; break; } }
                        if (ortho) { if (!(worst <= 1e-9 * (1 + sc))) res.fail(sig("coarsening-structure", "near-nullspace-reproduced", fmt("level %zu: P*(P^T*B) differs from B by %.3g at unknown %ld of %ld (%ld vectors, %d ranks)", l, worst, wi, nA, nscols, R)));
                            res.counts["nullspace_levels_checked"]++; ns_cur.assign((size_t)nC * nscols, 0.0); for (size_t q = 0; q < ns_cur.size(); ++q) ns_cur[q] = (double)Bc[q]; }
                        else { ns_ok = false; res.counts["nullspace_chain_stopped_nonorthonormal"]++; }
                    } else ns_ok = false;
                } else if (coarsening == 0) {
                    if (!unit) res.fail(sig("coarsening-structure", "constant-near-nullspace", fmt("level %zu: tentative prolongation has entries different from 1", l)));
                    for (long i = 0; i < nA; ++i) if (rowcnt[i] > 1) { res.fail(sig("coarsening-structure", "exactly-one-aggregate", fmt("level %zu: unknown %ld lies in %d aggregates", l, i, rowcnt[i]))); break; }
                }
                for (long c = 0; c < nC; ++c) if (colcnt[c] == 0) { res.fail(sig("coarsening-structure", "no-empty-aggregate", fmt("level %zu: coarse unknown %ld has no fine member", l, c))); break; }
            }
            // (worlds with near-null-space vectors run on a hierarchy truncated by max_levels: no convergence promise there)
            // (subdomain deflation / block preconditioner: promised only with a multigrid inside the subdomains, a bare smoother is no solver)
            // (block_preconditioner and subdomain deflation are one-level domain decomposition methods around a local solver: their iteration
            //  counts grow with the number of subdomains and the problem size, so the 200-iteration clause is judged for them up to n = 350)
            if (finite && kind != K_DIRECT && nscols == 0 && varied.empty() && !(kind != K_MPI_AMG && (p.get("local_relax_only") || n > 350)) && (solver == 7 ? !(resid[0] < 1.0) : !(resid[0] < tol))) res.fail(sig("converges-on-spd", solver == 7 ? "richardson-converges" : "within-200-iterations", fmt("%.0f iterations, residual %.3g (n=%ld, %d ranks)", iters[0], resid[0], n, R)));
        }
    }
    res.nontrivial = R >= 2 && out.stats.messages >= 1;
    uint64_t key = gen::digest(A); for (int r = 0; r <= R; ++r) key = sim::hash_combine(key, (uint64_t)rp[r]);
    key = sim::hash_combine(key, (uint64_t)(coarsening * 1000 + relax * 100 + solver * 10 + p.get("repart") + 100000 * kind + 1000000 * p.get("local_relax_only", 0) + 10000000 * p.get("local_coarsening", 0))); key = sim::hash_combine(key, (uint64_t)(mc.late_send_read * 4 + mc.recv_poison * 2 + mc.rendezvous + 8 * p.get("coarse_enough")));
    for (size_t i = 0; i < out.sched.deviations.size() && i < 64; ++i) key = sim::hash_combine(key, out.sched.deviations[i].first * 31 + out.sched.deviations[i].second);
    res.key = key; res.hash = sim::hash_combine(res.hash, vec_digest(x)); res.hash = sim::hash_combine(res.hash, (uint64_t)iters[0]);
    js::Value s = js::Value::object();
    s.set("kind", kind_names[kind]); s.set("ranks", R); s.set("family", gen::family_name((int)p.get("family"))); s.set("n", n); s.set("coarsening", coarsening_names[coarsening]); s.set("relax", relax_names[relax]); s.set("solver", solver_names[solver]);
    js::Value jp = js::Value::array(); for (int r = 0; r <= R; ++r) jp.push(rp[r]); s.set("row_partition", jp);
    s.set("coarse_enough", p.get("coarse_enough")); if (aggr_block) { s.set("aggr_block_size", 2); res.counts["pointwise_aggregation_worlds"]++; } if (!varied.empty()) { s.set("varied_parameters", varied); res.counts["varied_parameter_worlds"]++; } s.set("nullspace_vectors", nscols); if (p.get("tiny_rhs", 0)) { s.set("tiny_rhs", 1L); res.counts["tiny_rhs_worlds"]++; } s.set("repartition", (long)repart_on); s.set("late_send_read", (long)mc.late_send_read); s.set("recv_poison", (long)mc.recv_poison); s.set("rendezvous", (long)mc.rendezvous);
    s.set("strategy", sim::strategy_name(p.sched.strategy)); s.set("messages", (unsigned long long)out.stats.messages); s.set("collectives", (unsigned long long)out.stats.collectives); s.set("iters", iters[0]); s.set("resid", resid[0]);
    res.sample = s;
    return res;
}
