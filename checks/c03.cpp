// C03 — every coarse level is the (re-scaled) Galerkin product; rebuild keeps it so.
// Seams: recording / replaying coarsening policies and a recording relaxation policy (template-template parameters of
// amgcl::amg).  Invariants after construction and after every rebuild; history oracle: after each rebuild(A') the
// hierarchy acts bitwise like a fresh hierarchy assembled from A' with the recorded transfer operators.
#include "common.hpp"
#include <amgcl/amg.hpp>
#include <amgcl/coarsening/ruge_stuben.hpp>
#include <amgcl/coarsening/aggregation.hpp>
#include <amgcl/coarsening/smoothed_aggregation.hpp>
#include <amgcl/coarsening/smoothed_aggr_emin.hpp>
#include <amgcl/coarsening/as_scalar.hpp>
#include <amgcl/relaxation/spai0.hpp>
#include <deque>
#include <complex>
#include <amgcl/value_type/complex.hpp>
#include <amgcl/value_type/static_matrix.hpp>
#include <amgcl/adapter/block_matrix.hpp>
#include "harness_main.hpp"

const char *CHECK_ID = "C03";
using namespace cm;
using hz::Plan; using hz::Result; using hz::Violation; using hz::Op;

static const char *coarsening_names[] = { "ruge_stuben", "aggregation", "smoothed_aggregation", "smoothed_aggr_emin" };

// ---- recording relaxation: which level sizes received a smoother -----------------------------
static std::vector<size_t>& relax_log() { static std::vector<size_t> l; return l; }
template <class Backend>
struct rec_spai0 : amgcl::relaxation::spai0<Backend> {
    typedef amgcl::relaxation::spai0<Backend> Base;
    typedef typename Base::params params;
    template <class Matrix> rec_spai0(const Matrix &A, const params &p, const typename Backend::params &b) : Base(A, p, b) { relax_log().push_back(amgcl::backend::rows(A)); }
};

// ---- replaying coarsening: hands out recorded P/R instead of computing them -------------------
typedef DMatrix BM;
static std::deque<std::pair<std::shared_ptr<BM>, std::shared_ptr<BM> > >& replay_queue() { static std::deque<std::pair<std::shared_ptr<BM>, std::shared_ptr<BM> > > q; return q; }
template <template <class> class Base>
struct replayer {
    template <class Backend>
    struct type : Base<Backend> {
        typedef typename Base<Backend>::params params;
        type(const params &p = params()) : Base<Backend>(p) {}
        template <class Matrix>
        std::tuple< std::shared_ptr<Matrix>, std::shared_ptr<Matrix> > transfer_operators(const Matrix &) {
            if (replay_queue().empty()) throw amgcl::error::empty_level();
            auto pr = replay_queue().front(); replay_queue().pop_front();
            return std::make_tuple(std::make_shared<Matrix>(*pr.first), std::make_shared<Matrix>(*pr.second));
        }
    };
};

struct Dense { long n, m; std::vector<long double> a; Dense(long n = 0, long m = 0) : n(n), m(m), a((size_t)n * m, 0.0L) {} long double& operator()(long i, long j) { return a[(size_t)i * m + j]; } long double operator()(long i, long j) const { return a[(size_t)i * m + j]; } };
static Dense to_dense(const BM &M, bool absolute = false) { Dense D(M.nrows, M.ncols); for (size_t i = 0; i < M.nrows; ++i) for (ptrdiff_t j = M.ptr[i]; j < M.ptr[i+1]; ++j) D(i, M.col[j]) += absolute ? std::fabs(M.val[j]) : M.val[j]; return D; }
static Dense mul(const Dense &A, const Dense &B) { Dense C(A.n, B.m); for (long i = 0; i < A.n; ++i) for (long k = 0; k < A.m; ++k) { long double a = A(i, k); if (a == 0) continue; for (long j = 0; j < B.m; ++j) C(i, j) += a * B(k, j); } return C; }

struct Hier { std::vector<LevelLog> levels; std::vector<size_t> relax_sizes; size_t nlevels = 0; std::vector<std::vector<double> > action; std::string exc; };

template <class AMG>
static void probe(const AMG &amg, long n, uint64_t vseed, std::vector<std::vector<double> > &out) {
    out.clear();
    for (int k = 0; k < 3; ++k) { std::vector<double> f = gen::make_vector(n, vseed + k, k == 2 ? 2 : 0), u(n, 0.0); amg.apply(f, u); out.push_back(u); }
}

static gen::Csr variant(const gen::Csr &A0, long kind, long arg) {
    gen::Csr A = A0;
    sim::rng r((uint64_t)arg, "variant");
    switch (kind) {
        case 0: for (size_t j = 0; j < A.val.size(); ++j) A.val[j] *= (1.0 + (double)r.range(-4, 4) / 16.0); break;          // perturbed coefficients
        case 1: { double s = std::ldexp(1.0, (int)(arg % 7) - 3); for (size_t j = 0; j < A.val.size(); ++j) A.val[j] *= s; break; }   // scaled by a power of two
        case 2: for (size_t j = 0; j < A.val.size(); ++j) A.val[j] = -A.val[j]; break;                                          // sign flipped
        case 3: for (long i = 0; i < A.n; ++i) for (ptrdiff_t j = A.ptr[i]; j < A.ptr[i+1]; ++j) if (A.col[j] == i) A.val[j] *= 2; break;  // stronger diagonal
        default: break;                                                                                                         // 4: the original matrix
    }
    return A;
}

// coarsening parameter helpers (the four policies have different parameter structs)
template <class P> static auto set_aggr(P &c, const Plan &p, float eps, int) -> decltype(c.aggr.eps_strong, void()) { c.aggr.eps_strong = eps; if (p.get("block_size") > 1) c.aggr.block_size = (unsigned)p.get("block_size"); }
template <class P> static void set_aggr(P &, const Plan &, float, long) {}
template <class P> static auto set_over(P &c, const Plan &p, int) -> decltype(c.over_interp, void()) { static const float ov[] = { 1.0f, 1.5f, 2.0f, 1.25f }; c.over_interp = ov[p.get("over") % 4]; }
template <class P> static void set_over(P &, const Plan &, long) {}
template <class P> static auto set_rs(P &c, const Plan &p, float eps, int) -> decltype(c.eps_trunc, void()) { c.eps_strong = 0.25f + eps / 4; c.do_trunc = p.get("trunc") != 0; }
template <class P> static void set_rs(P &, const Plan &, float, long) {}
template <class P> static auto set_sa(P &c, const Plan &p, int) -> decltype(c.relax, void()) { static const float rl[] = { 1.0f, 0.75f, 1.5f }; c.relax = rl[p.get("sa_relax") % 3]; }
template <class P> static void set_sa(P &, const Plan &, long) {}
template <class P> static void set_coarsening_params(P &c, const Plan &p, float eps) { set_aggr(c, p, eps, 0); set_over(c, p, 0); set_rs(c, p, eps, 0); set_sa(c, p, 0); }
template <class P> static auto get_over_impl(const P &c, int) -> decltype(c.over_interp, float()) { return c.over_interp; }
template <class P> static float get_over_impl(const P &, long) { return 1.0f; }
template <class P> static float get_over_interp(const P &c) { return get_over_impl(c, 0); }


template <class V> static std::shared_ptr<amgcl::backend::crs<V> > make_valued(const gen::Csr &G, uint64_t seed);
template <> std::shared_ptr<amgcl::backend::crs<std::complex<double> > > make_valued<std::complex<double> >(const gen::Csr &G, uint64_t seed) {
    auto M = std::make_shared<amgcl::backend::crs<std::complex<double> > >();
    M->set_size(G.n, G.n, false); for (long i = 0; i <= G.n; ++i) M->ptr[i] = G.ptr[i]; M->set_nonzeros(G.nnz());
    for (long i = 0; i < G.n; ++i) for (ptrdiff_t j = G.ptr[i]; j < G.ptr[i+1]; ++j) { M->col[j] = G.col[j]; uint64_t h = sim::hash_combine((uint64_t)i * 1315423911u + (uint64_t)G.col[j], seed); double im = G.col[j] == i ? 0.0 : G.val[j] * ((double)((long)(h % 9) - 4) / 8.0); M->val[j] = std::complex<double>(G.val[j], im); }
    return M; }
template <> std::shared_ptr<amgcl::backend::crs<amgcl::static_matrix<double,2,2> > > make_valued<amgcl::static_matrix<double,2,2> >(const gen::Csr &G, uint64_t) {
    typedef amgcl::static_matrix<double,2,2> BV;
    if (G.n % 2 || G.n < 4) return std::shared_ptr<amgcl::backend::crs<BV> >();
    gen::Csr Gc = G; auto As = to_crs(Gc); amgcl::backend::sort_rows(*As);
    return std::make_shared<amgcl::backend::crs<BV> >(amgcl::adapter::block_matrix<BV>(*As)); }

// ---- complex / block valued hierarchies: R is the ADJOINT of P, A_c = R*A*P in the value type's own algebra -----------------------
typedef std::complex<long double> CL;
template <class V> struct vtraits;
template <> struct vtraits<std::complex<double> > { enum { B = 1 }; static CL get(const std::complex<double> &v, int, int) { return CL(v.real(), v.imag()); } static const char* name() { return "complex"; } };
template <> struct vtraits<amgcl::static_matrix<double,2,2> > { enum { B = 2 }; static CL get(const amgcl::static_matrix<double,2,2> &v, int a, int b) { return CL(v(a, b), 0); } static const char* name() { return "block2x2"; } };
// (a degenerate hierarchy may carry NaN entries - positive off-diagonal family, singular diagonal blocks -: NaN "equals" NaN here,
//  the clause is about R being the adjoint of P, not about P being finite)
static bool same_or_both_nan(CL a, CL b) { auto eq = [](long double x, long double y) { return x == y || (x != x && y != y); }; return eq(a.real(), b.real()) && eq(a.imag(), b.imag()); }
struct CDense { long n, m; std::vector<CL> a; CDense(long n = 0, long m = 0) : n(n), m(m), a((size_t)n * m, CL(0, 0)) {} CL& operator()(long i, long j) { return a[(size_t)i * m + j]; } CL operator()(long i, long j) const { return a[(size_t)i * m + j]; } };
template <class V> static CDense vdense(const amgcl::backend::crs<V> &M, bool absolute = false) {
    const int B = vtraits<V>::B; CDense D((long)M.nrows * B, (long)M.ncols * B);
    for (size_t i = 0; i < M.nrows; ++i) for (ptrdiff_t j = M.ptr[i]; j < M.ptr[i+1]; ++j) for (int a = 0; a < B; ++a) for (int b = 0; b < B; ++b) { CL v = vtraits<V>::get(M.val[j], a, b); D(i * B + a, M.col[j] * B + b) += absolute ? CL(std::abs(v), 0) : v; }
    return D; }
static CDense cmul(const CDense &A, const CDense &B) { CDense C(A.n, B.m); for (long i = 0; i < A.n; ++i) for (long k = 0; k < A.m; ++k) { CL a = A(i, k); if (a == CL(0, 0)) continue; for (long j = 0; j < B.m; ++j) C(i, j) += a * B(k, j); } return C; }

template <class V, template <class> class C>
static void run_valued(const Plan &p, const gen::Csr &A0, Result &res, bool adjoint_clause, bool scalar_wrapper = false) {
    typedef amgcl::backend::builtin<V> VB; typedef amgcl::backend::crs<V> VM;
    typedef amgcl::amg<VB, recorder<C>::template type, amgcl::relaxation::spai0> AMG;
    long coarsening = p.get("coarsening");
    auto sig = [&](const char *oracle, const char *clause, const std::string &detail) { Violation v; v.oracle = oracle; v.add("component", coarsening_names[coarsening]); v.add("clause", clause); v.add("nt", p.get("nt") > 16 ? "rmerge" : "saad"); v.add("values", vtraits<V>::name()); v.detail = detail; return v; };
    const int B = vtraits<V>::B;
    std::shared_ptr<VM> Av = make_valued<V>(A0, (uint64_t)p.get("mseed"));
    if (!Av) return;
    typename AMG::params prm;
    prm.coarse_enough = (unsigned)std::max<long>(1, p.get("coarse_enough") / B); prm.max_levels = (unsigned)p.get("max_levels"); prm.direct_coarse = p.get("direct_coarse") != 0; prm.allow_rebuild = true;
    set_coarsening_params(prm.coarsening, p, (float)p.get("eps16") / 16.0f);
    if (scalar_wrapper) { prm.coarsening.aggr.block_size = B; res.counts["as_scalar_wrapper_worlds"]++; }      // the wrapped policy aggregates the unblocked matrix node-wise
    level_log().clear();
    std::unique_ptr<AMG> amg;
    try { amg.reset(new AMG(*Av, prm)); } catch (const std::exception &) { res.counts["construction_threw"]++; level_log().clear(); return; }
    std::vector<LevelLog> built = level_log(); level_log().clear();
    float over = get_over_interp(prm.coarsening); const long double scale = (long double)(double)(1.0f / over);
    auto check_levels = [&](const std::vector<LevelLog> &lv, const char *when) {
        for (size_t l = 0; l < lv.size(); ++l) {
            if (!lv[l].Ac) continue;
            const VM &Al = *std::static_pointer_cast<VM>(lv[l].A), &P = *std::static_pointer_cast<VM>(lv[l].P), &R = *std::static_pointer_cast<VM>(lv[l].R), &Ac = *std::static_pointer_cast<VM>(lv[l].Ac);
            if ((long)Al.nrows * B > 140) continue;
            CDense dP = vdense(P), dR = vdense(R), dA = vdense(Al), dC = vdense(Ac);
            if (adjoint_clause) { bool ok = dR.n == dP.m && dR.m == dP.n; for (long i = 0; ok && i < dP.n; ++i) for (long j = 0; j < dP.m; ++j) if (!same_or_both_nan(dR(j, i), std::conj(dP(i, j)))) { ok = false; res.fail(sig("restriction-is-adjoint", when, fmt("level %zu: R(%ld,%ld) = %.17Lg%+.17Lgi is not the adjoint of P(%ld,%ld) = %.17Lg%+.17Lgi", l, j, i, dR(j, i).real(), dR(j, i).imag(), i, j, dP(i, j).real(), dP(i, j).imag()))); break; } }
            CDense RAP = cmul(cmul(dR, dA), dP), Bd = cmul(cmul(vdense(R, true), vdense(Al, true)), vdense(P, true));
            for (long i = 0; i < dC.n; ++i) for (long j = 0; j < dC.m; ++j) { CL want = RAP(i, j) * scale; long double tol = 64 * 1.2e-16L * Bd(i, j).real() * scale + 1e-300L; if (std::abs(dC(i, j) - want) > tol) { res.fail(sig("galerkin", when, fmt("level %zu: A_c(%ld,%ld) = %.17g%+.17gi, R*A*P/%g = %.17Lg%+.17Lgi", l, i, j, (double)dC(i, j).real(), (double)dC(i, j).imag(), (double)over, want.real(), want.imag()))); i = dC.n; break; } }
            res.counts["valued_levels_checked"]++;
        } };
    check_levels(built, "construction");
    // one rebuild with a changed matrix of the same pattern
    std::shared_ptr<VM> A2 = make_valued<V>(variant(A0, 0, p.get("vseed") % 1000), (uint64_t)p.get("mseed") + 1);
    level_log().clear();
    try { amg->rebuild(*A2); check_levels(level_log(), "rebuild"); res.counts["rebuilds"]++; } catch (const std::exception &) { res.faults["rebuild_threw"]++; }
    level_log().clear();
    res.nontrivial = built.size() >= 1 && built[0].Ac;
    res.counts[std::string("valued_") + vtraits<V>::name()]++;
}

template <template <class> class C>
static void run_typed(const Plan &p, const gen::Csr &A0, Result &res) {
    typedef amgcl::amg<DBackend, recorder<C>::template type, rec_spai0> RecAMG;
    typedef amgcl::amg<DBackend, replayer<C>::template type, rec_spai0> RepAMG;
    const long n = A0.n;
    long coarsening = p.get("coarsening");
    auto sig = [&](const char *oracle, const char *clause, const std::string &detail) { Violation v; v.oracle = oracle; v.add("component", coarsening_names[coarsening]); v.add("clause", clause); v.add("nt", p.get("nt") > 16 ? "rmerge" : "saad"); v.detail = detail; return v; };
    typename RecAMG::params prm;
    prm.coarse_enough = (unsigned)p.get("coarse_enough"); prm.max_levels = (unsigned)p.get("max_levels"); prm.direct_coarse = p.get("direct_coarse") != 0;
    prm.allow_rebuild = true; prm.npre = (unsigned)p.get("npre"); prm.npost = (unsigned)p.get("npre"); prm.ncycle = (unsigned)p.get("ncycle");
    if (prm.ncycle > 1 && prm.max_levels > 6) prm.max_levels = 6;
    float eps_strong = (float)p.get("eps16") / 16.0f;
    set_coarsening_params(prm.coarsening, p, eps_strong);
    typename RepAMG::params rprm;
    rprm.coarse_enough = prm.coarse_enough; rprm.max_levels = prm.max_levels; rprm.direct_coarse = prm.direct_coarse; rprm.allow_rebuild = true; rprm.npre = prm.npre; rprm.npost = prm.npost; rprm.ncycle = prm.ncycle;
    set_coarsening_params(rprm.coarsening, p, eps_strong);

    level_log().clear(); relax_log().clear();
    gen::Csr A = A0;
    std::unique_ptr<RecAMG> amg;
    try { amg.reset(new RecAMG(A.tie(), prm)); } catch (const std::exception &e) { res.counts["construction_threw"]++; level_log().clear(); return; }
    std::vector<LevelLog> built = level_log(); level_log().clear();
    std::vector<size_t> relaxed = relax_log(); relax_log().clear();
    // a second hierarchy that shares the caller's matrix object (the non-copying shared_ptr constructor): the caller later updates
    // the values in place and calls rebuild() with the same pointer - the history of a time-stepping code
    std::shared_ptr<BM> SP; std::unique_ptr<RecAMG> amg_sp;
    try { SP = std::make_shared<BM>(A.tie()); amgcl::backend::sort_rows(*SP); amg_sp.reset(new RecAMG(SP, prm)); } catch (const std::exception &) { amg_sp.reset(); }
    // the two constructions are independent runs of the coarsening: smoothed_aggr_emin accumulates in a critical section whose order the
    // schedule decides, so its operators may differ in the last bits - the bitwise comparison below needs bit-identical P and R
    std::vector<uint64_t> sp_digest; for (size_t l = 0; l < level_log().size(); ++l) if (level_log()[l].Ac) { sp_digest.push_back(crs_digest(*std::static_pointer_cast<BM>(level_log()[l].P))); sp_digest.push_back(crs_digest(*std::static_pointer_cast<BM>(level_log()[l].R))); }
    level_log().clear(); relax_log().clear();
    std::ostringstream os; os << *amg; size_t nlevels = 0; { std::string t = os.str(); size_t pos = t.find("Number of levels:"); if (pos != std::string::npos) nlevels = (size_t)atoi(t.c_str() + pos + 17); }
    res.counts["levels_total"] += nlevels;

    // --- invariants of the constructed hierarchy -------------------------------------------------
    float over = get_over_interp(prm.coarsening);
    // the factor is a float parameter and is applied as one multiplication by the float 1/over_interp (scaled_galerkin.hpp)
    const long double scale = (long double)(double)(1.0f / over);
    size_t prev_rows = (size_t)n;
    for (size_t l = 0; l < built.size(); ++l) {
        if (!built[l].Ac) continue;
        const BM &Al = *std::static_pointer_cast<BM>(built[l].A), &P = *std::static_pointer_cast<BM>(built[l].P), &R = *std::static_pointer_cast<BM>(built[l].R), &Ac = *std::static_pointer_cast<BM>(built[l].Ac);
        if (!(Ac.nrows < Al.nrows) || Ac.nrows != P.ncols || Al.nrows != prev_rows) res.fail(sig("sizes-strictly-decrease", "construction", fmt("level %zu: %zu -> %zu rows (P is %zu x %zu)", l, Al.nrows, Ac.nrows, P.nrows, P.ncols)));
        prev_rows = Ac.nrows;
        std::string wf = crs_wellformed(Ac, true); if (!wf.empty()) res.fail(sig("wellformed", "coarse-operator", fmt("level %zu: %s", l, wf.c_str())));
        if (coarsening != 3) {     // R is the adjoint of P for aggregation, smoothed aggregation, Ruge-Stuben
            auto Pt = amgcl::backend::transpose(P); amgcl::backend::sort_rows(*Pt); BM Rs(R); amgcl::backend::sort_rows(Rs);
            if (crs_digest(*Pt) != crs_digest(Rs)) res.fail(sig("restriction-is-adjoint", "construction", fmt("level %zu: R != P^T", l)));
        }
        if (Al.nrows <= 160) {
            Dense RAP = mul(mul(to_dense(R), to_dense(Al)), to_dense(P)), B = mul(mul(to_dense(R, true), to_dense(Al, true)), to_dense(P, true)), D = to_dense(Ac);
            long double worst = 0; long wi = -1, wj = -1;
            for (long i = 0; i < D.n; ++i) for (long j = 0; j < D.m; ++j) {
                long double want = RAP(i, j) * scale, tol = 64 * 1.2e-16L * B(i, j) * scale + 1e-300L, d = std::fabs((long double)D(i, j) - want);
                if (d > tol && d / tol > worst) { worst = d / tol; wi = i; wj = j; }
            }
            if (wi >= 0) res.fail(sig("galerkin", "construction", fmt("level %zu: A_c(%ld,%ld) = %.17g, R*A*P/%g = %.17Lg", l, wi, wj, (double)D(wi, wj), (double)over, RAP(wi, wj) * scale)));
            res.counts["galerkin_levels_checked"]++;
        }
    }
    // the last level: direct solver iff it is small enough and direct_coarse is set, smoother otherwise
    {
        size_t last_rows = built.empty() ? (size_t)n : (built.back().Ac ? std::static_pointer_cast<BM>(built.back().Ac)->nrows : std::static_pointer_cast<BM>(built.back().A)->nrows);
        bool coarsened_to_end = built.empty() || built.back().Ac;
        bool expect_direct = coarsened_to_end && last_rows <= prm.coarse_enough && prm.direct_coarse && nlevels > 0;
        size_t expect_relax = nlevels - (expect_direct ? 1 : 0);
        if (relaxed.size() != expect_relax) res.fail(sig("coarsest-level-solver", "construction", fmt("%zu levels, last has %zu rows (coarse_enough %u, direct_coarse %d): %zu smoothers built, expected %zu", nlevels, last_rows, prm.coarse_enough, (int)prm.direct_coarse, relaxed.size(), expect_relax)));
    }

    std::vector<std::vector<double> > act0; probe(*amg, n, (uint64_t)p.get("vseed"), act0);
    res.hash = sim::hash_combine(res.hash, vec_digest(act0[0]));
    // recorded transfer operators (sorted copies held by the log)
    std::vector<std::pair<std::shared_ptr<BM>, std::shared_ptr<BM> > > PR;
    for (size_t l = 0; l < built.size(); ++l) if (built[l].Ac) PR.push_back(std::make_pair(std::static_pointer_cast<BM>(built[l].P), std::static_pointer_cast<BM>(built[l].R)));
    std::vector<uint64_t> pr_digest; for (size_t l = 0; l < PR.size(); ++l) { pr_digest.push_back(crs_digest(*PR[l].first)); pr_digest.push_back(crs_digest(*PR[l].second)); }

    // --- rebuild history --------------------------------------------------------------------------
    bool changed = false;
    for (size_t i = 0; i < p.ops.size(); ++i) {
        const Op &op = p.ops[i];
        long kind = op.a.size() > 0 ? op.a[0] : 0, arg = op.a.size() > 1 ? op.a[1] : 0;
        if (op.kind == "rebuild_wrong_size") {
            gen::Csr W = gen::make_matrix(gen::F_GRID1D, n + 1 + arg % 3, 7, 0, 1);
            bool threw = false; try { amg->rebuild(W.tie()); } catch (const std::exception &) { threw = true; }
            res.faults["rebuild_wrong_size"]++;
            if (!threw) res.fail(sig("rebuild-rejects-wrong-shape", "rebuild", "rebuild() accepted a matrix of another size"));
            // nothing may have changed
            std::vector<std::vector<double> > act; probe(*amg, n, (uint64_t)p.get("vseed"), act);
            // (compared below with the fresh hierarchy of the current matrix on the next successful rebuild)
            continue;
        }
        gen::Csr Ai = variant(A0, kind, arg);
        level_log().clear();
        std::string exc;
        try { amg->rebuild(Ai.tie()); } catch (const std::exception &e) { exc = e.what(); }
        std::vector<LevelLog> rebuilt = level_log(); level_log().clear();
        res.counts["rebuilds"]++;
        if (!exc.empty()) { res.faults["rebuild_threw"]++; continue; }
        if (kind != 4) changed = true;
        // transfer operators unchanged
        for (size_t l = 0; l < PR.size(); ++l) if (crs_digest(*PR[l].first) != pr_digest[2*l] || crs_digest(*PR[l].second) != pr_digest[2*l+1]) res.fail(sig("transfer-operators-unchanged", "rebuild", fmt("P or R of level %zu changed", l)));
        // every coarse matrix is R*A'*P again
        for (size_t l = 0; l < rebuilt.size(); ++l) {
            const BM &Al = *std::static_pointer_cast<BM>(rebuilt[l].A), &P = *std::static_pointer_cast<BM>(rebuilt[l].P), &R = *std::static_pointer_cast<BM>(rebuilt[l].R), &Ac = *std::static_pointer_cast<BM>(rebuilt[l].Ac);
            if (l < PR.size() && (crs_digest(P) != pr_digest[2*l] || crs_digest(R) != pr_digest[2*l+1])) res.fail(sig("transfer-operators-unchanged", "rebuild", fmt("rebuild used other operators on level %zu", l)));
            if (Al.nrows <= 160) {
                Dense RAP = mul(mul(to_dense(R), to_dense(Al)), to_dense(P)), B = mul(mul(to_dense(R, true), to_dense(Al, true)), to_dense(P, true)), D = to_dense(Ac);
                for (long a = 0; a < D.n; ++a) for (long b = 0; b < D.m; ++b) { long double want = RAP(a, b) * scale, tol = 64 * 1.2e-16L * B(a, b) * scale + 1e-300L; if (std::fabs((long double)D(a, b) - want) > tol) { res.fail(sig("galerkin", "rebuild", fmt("after rebuild %zu level %zu: A_c(%ld,%ld) = %.17g, R*A'*P/%g = %.17Lg", i, l, a, b, (double)D(a, b), (double)over, want))); a = D.n; break; } }
            }
        }
        if (rebuilt.size() != PR.size()) res.fail(sig("galerkin", "rebuild-levels", fmt("rebuild recomputed %zu coarse operators, hierarchy has %zu", rebuilt.size(), PR.size())));
        // acts exactly like a fresh hierarchy assembled from A' with those operators
        replay_queue().clear(); for (size_t l = 0; l < PR.size(); ++l) replay_queue().push_back(PR[l]);
        relax_log().clear();
        std::vector<std::vector<double> > act, want;
        probe(*amg, n, (uint64_t)p.get("vseed"), act);
        if (amg_sp && sp_digest != pr_digest) res.counts["in_place_twin_has_other_transfer_operators"]++;
        if (amg_sp && sp_digest == pr_digest) {   // same history through the shared matrix object: values updated in place, rebuild(same pointer)
            BM Ti(Ai.tie()); amgcl::backend::sort_rows(Ti);
            bool same_pattern = Ti.nnz == SP->nnz; for (size_t j = 0; same_pattern && j < Ti.nnz; ++j) same_pattern = Ti.col[j] == SP->col[j];
            if (same_pattern) {
                for (size_t j = 0; j < Ti.nnz; ++j) SP->val[j] = Ti.val[j];
                std::string e2; try { amg_sp->rebuild(SP); } catch (const std::exception &e) { e2 = e.what(); }
                level_log().clear(); relax_log().clear();
                res.counts["rebuilds_in_place_same_object"]++;
                if (!e2.empty()) res.fail(sig("rebuilt-equals-fresh", "rebuild-in-place", fmt("rebuild %zu with the caller's own (updated in place) matrix object threw: %s", i, e2.c_str())));
                else { std::vector<std::vector<double> > act2; probe(*amg_sp, n, (uint64_t)p.get("vseed"), act2);
                    for (size_t k = 0; k < act.size(); ++k) if (!bits_equal(act[k], act2[k])) { long d = first_diff(act[k], act2[k]); res.fail(sig("rebuilt-equals-fresh", "rebuild-in-place", fmt("after rebuild %zu (variant %ld) with the caller's own matrix object updated in place: probe %zu differs at %ld: %.17g vs %.17g from rebuild(copy)", i, kind, k, d, d >= 0 ? act2[k][d] : 0.0, d >= 0 ? act[k][d] : 0.0))); break; } }
            }
        }
        try { RepAMG fresh(Ai.tie(), rprm); probe(fresh, n, (uint64_t)p.get("vseed"), want); } catch (const std::exception &e) { res.counts["fresh_threw"]++; replay_queue().clear(); continue; }
        replay_queue().clear(); relax_log().clear(); level_log().clear();
        for (size_t k = 0; k < act.size(); ++k) if (!bits_equal(act[k], want[k])) { long d = first_diff(act[k], want[k]); res.fail(sig("rebuilt-equals-fresh", "rebuild", fmt("after rebuild %zu (variant %ld): probe %zu differs at %ld: %.17g vs fresh %.17g", i, kind, k, d, d >= 0 ? act[k][d] : 0.0, d >= 0 ? want[k][d] : 0.0))); break; }
        if (kind == 4) for (size_t k = 0; k < act.size(); ++k) if (!bits_equal(act[k], act0[k])) { res.fail(sig("rebuild-original-restores", "rebuild", fmt("rebuild with the original matrix (op %zu) does not restore the original action", i))); break; }
        res.hash = sim::hash_combine(res.hash, vec_digest(act[0]));
    }
    res.nontrivial = nlevels >= 2 && changed;
    res.counts[nlevels >= 2 ? "multilevel" : "single_level"]++;
}

Plan generate(uint64_t seed, uint64_t run, bool thorough) {
    sim::rng r(seed, "world", run);
    Plan p;
    static const int fams[] = { gen::F_GRID2D, gen::F_GRID2D, gen::F_GRAPH, gen::F_GRID3D, gen::F_GRID1D, gen::F_CONVDIFF, gen::F_NONSYM_PATTERN, gen::F_DISCONNECTED, gen::F_GRID2D_DIRROWS, gen::F_POSITIVE_OFFDIAG };
    int fam = fams[r.below(10)];
    p.set("family", fam, fam);
    p.set("n", r.chance(0.75) ? r.range(6, 150) : r.range(100, thorough ? 900 : 400), 2);
    p.set("mseed", (long)(r.next() >> 16), 0);
    p.set("vseed", (long)(r.next() >> 16), 0);
    p.set("contrast", r.range(0, 3), 0);
    p.set("aniso", r.chance(0.3) ? (1L << r.range(1, 4)) : 1, 1);
    p.set("integer", r.range(0, 1), 0);
    p.set("coarsening", r.range(0, 3), 0);
    static const long ce[] = { 1, 2, 5, 10, 30, 3000 };
    p.set("coarse_enough", ce[r.below(6)], 1);
    p.set("max_levels", r.chance(0.2) ? r.range(1, 4) : 100, 1);
    p.set("direct_coarse", r.chance(0.7) ? 1 : 0, 0);
    p.set("npre", r.range(1, 2), 1); p.set("ncycle", r.range(1, 2), 1);
    p.set("eps16", r.range(0, 8), 0); p.set("over", r.range(0, 3), 0); p.set("trunc", r.range(0, 1), 0); p.set("sa_relax", r.range(0, 2), 0);
    p.set("block_size", r.chance(0.15) ? 2 : 1, 1);
    p.set("valued", r.chance(0.2) ? r.range(1, 3) : 0, 0);      // 1: complex values, 2: 2x2 block values (aggregation-type coarsenings), 3: 2x2 blocks coarsened through coarsening::as_scalar<>
    static const long nts[] = { 1, 1, 2, 5, 16, 17, 24, 32 };
    p.set("nt", nts[r.below(8)], 1);
    long nops = r.range(1, thorough ? 8 : 5);
    for (long i = 0; i < nops; ++i) {
        Op o; double u = r.unit();
        if (u < 0.12) { o.kind = "rebuild_wrong_size"; o.a.push_back(0); o.a.push_back(r.range(0, 5)); }
        else { o.kind = "rebuild"; o.a.push_back(i + 1 == nops && r.chance(0.5) ? 4 : r.range(0, 4)); o.a.push_back(r.range(0, 1000)); }
        p.ops.push_back(o);
    }
    p.min_ops = 0;
    draw_schedule(r, p.sched, (int)p.get("nt"));
    return p;
}

Result execute(const Plan &p) {
    Result res;
    gen::Csr A = gen::make_matrix((int)p.get("family"), p.get("n"), (uint64_t)p.get("mseed"), (int)p.get("contrast"), (int)p.get("aniso"), (int)p.get("integer"));
    if (p.get("block_size") > 1 && A.n % p.get("block_size") != 0) { Plan q = p; q.set("block_size", 1, 1); return execute(q); }
    int nt = (int)p.get("nt");
    long valued = p.get("valued", 0); if (p.get("coarsening") == 0) valued = 0;      // Ruge-Stuben is real-valued only
    sim::RunStatus st = world(nt, p.sched, [&]() {
        if (valued) {
            typedef std::complex<double> CX; typedef amgcl::static_matrix<double,2,2> BV;
            switch (p.get("coarsening") * 10 + valued) {
                case 11: run_valued<CX, amgcl::coarsening::aggregation>(p, A, res, true); break;
                case 12: run_valued<BV, amgcl::coarsening::aggregation>(p, A, res, true); break;
                case 13: run_valued<BV, amgcl::coarsening::as_scalar<amgcl::coarsening::aggregation>::type>(p, A, res, true, true); break;
                case 23: run_valued<BV, amgcl::coarsening::as_scalar<amgcl::coarsening::smoothed_aggregation>::type>(p, A, res, true, true); break;
                case 33: run_valued<BV, amgcl::coarsening::smoothed_aggr_emin>(p, A, res, false); break;
                case 21: run_valued<CX, amgcl::coarsening::smoothed_aggregation>(p, A, res, true); break;
                case 22: run_valued<BV, amgcl::coarsening::smoothed_aggregation>(p, A, res, true); break;
                case 31: run_valued<CX, amgcl::coarsening::smoothed_aggr_emin>(p, A, res, false); break;
                default: run_valued<BV, amgcl::coarsening::smoothed_aggr_emin>(p, A, res, false); break;
            }
            return;
        }
        switch (p.get("coarsening")) {
            case 0: run_typed<amgcl::coarsening::ruge_stuben>(p, A, res); break;
            case 1: run_typed<amgcl::coarsening::aggregation>(p, A, res); break;
            case 2: run_typed<amgcl::coarsening::smoothed_aggregation>(p, A, res); break;
            default: run_typed<amgcl::coarsening::smoothed_aggr_emin>(p, A, res); break;
        }
    });
    res.absorb(st); res.deviations = st.deviations;
    if (st.status) { Violation v; v.oracle = "world-terminates"; v.add("component", coarsening_names[p.get("coarsening")]); v.add("clause", "deadlock-or-budget"); v.detail = st.blocked; res.fail(v); }
    if (nt > 16) res.counts["spgemm_rmerge_path"]++;
    uint64_t key = sim::hash_combine(gen::digest(A), (uint64_t)(p.get("coarsening") * 100000 + p.get("coarse_enough") * 100 + p.get("max_levels")));
    for (size_t i = 0; i < p.ops.size(); ++i) { key = sim::hash_combine(key, sim::hash_str(p.ops[i].kind.c_str())); for (size_t k = 0; k < p.ops[i].a.size(); ++k) key = sim::hash_combine(key, (uint64_t)p.ops[i].a[k]); }
    res.key = sim::hash_combine(key, nt > 16);
    js::Value s = js::Value::object();
    s.set("family", gen::family_name((int)p.get("family"))); s.set("n", A.n); s.set("coarsening", coarsening_names[p.get("coarsening")]); s.set("coarse_enough", p.get("coarse_enough"));
    s.set("max_levels", p.get("max_levels")); s.set("direct_coarse", p.get("direct_coarse")); s.set("nt", nt); s.set("integer_valued", p.get("integer"));
    js::Value ops = js::Value::array(); for (size_t i = 0; i < p.ops.size(); ++i) { js::Value o = js::Value::array(); o.push(p.ops[i].kind); for (size_t k = 0; k < p.ops[i].a.size(); ++k) o.push(p.ops[i].a[k]); ops.push(o); }
    s.set("script", ops);
    res.sample = s;
    return res;
}
