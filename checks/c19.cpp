// C19 — matrix/vector files round-trip exactly; bad files fail cleanly.
// The simulated disk (sim/fs.hpp) holds byte images; faults are explicit ops on the image: truncation at every
// byte (exhaustive sweep for the file at hand), bit flips, byte overwrites, lost tails, dropped/duplicated lines,
// corrupted banner keywords, inconsistent size fields, wrong value kind.
#include "common.hpp"
#include "../sim/fs.hpp"
#include <complex>
#include <amgcl/io/mm.hpp>
#include <amgcl/io/binary.hpp>
#include <amgcl/value_type/complex.hpp>
#include "harness_main.hpp"

#if defined(__SANITIZE_ADDRESS__)
extern "C" __attribute__((used)) const char* __asan_default_options() { return "exitcode=77:detect_leaks=0"; }
#endif

#if !defined(__SANITIZE_ADDRESS__)
#include <sys/resource.h>
// a corrupted size field must end in std::bad_alloc / length_error, not in an hour of paging
static struct LimitAS { LimitAS() { struct rlimit rl; rl.rlim_cur = rl.rlim_max = (rlim_t)1536 << 20; setrlimit(RLIMIT_AS, &rl); } } limit_as_instance;
#endif
const char *CHECK_ID = "C19";
using namespace cm;
using hz::Plan; using hz::Result; using hz::Violation; using hz::Op;
using simfs::bytes;

enum Fmt { MM_SPARSE = 0, MM_DENSE = 1, BIN_CRS = 2, BIN_DENSE = 3, NFMT = 4 };
static const char *fmt_names[] = { "mm_sparse", "mm_dense", "bin_crs", "bin_dense" };
enum VT { V_DOUBLE = 0, V_FLOAT = 1, V_COMPLEX = 2, V_LONG = 3, NVT = 4 };
static const char *vt_names[] = { "double", "float", "complex", "integer" };
enum Mode { M_ROUNDTRIP = 0, M_FAULTS = 1, M_TRUNCATE_ALL = 2, M_KIND_MISMATCH = 3, M_BANNER = 4, M_SIZES = 5, NMODE = 6 };
static const char *mode_names[] = { "roundtrip", "faults", "truncate_all", "kind_mismatch", "banner", "sizes" };

template <class V> struct gen_value;
template <> struct gen_value<double> { static double get(sim::rng &r, bool special) {
    if (special) { static const double s[] = { 0.0, -0.0, 4.9406564584124654e-324, -4.9406564584124654e-324, 2.2250738585072014e-308, 1.7976931348623157e308, -1.7976931348623157e308, 1e-310, 1.0, -1.0, 0.1, 1.0/3, 3.141592653589793, 1e300, 1e-300 }; return s[r.below(15)]; }
    for (;;) { uint64_t b = r.next(); double d; std::memcpy(&d, &b, 8); if (std::isfinite(d)) return d; } } };
template <> struct gen_value<float> { static float get(sim::rng &r, bool special) {
    if (special) { static const float s[] = { 0.0f, -0.0f, 1.4e-45f, 1.17549435e-38f, 3.40282347e38f, -3.40282347e38f, 1.0f, 0.1f, 1e-40f }; return s[r.below(9)]; }
    for (;;) { uint32_t b = (uint32_t)r.next(); float d; std::memcpy(&d, &b, 4); if (std::isfinite(d)) return d; } } };
template <> struct gen_value<std::complex<double> > { static std::complex<double> get(sim::rng &r, bool special) { return std::complex<double>(gen_value<double>::get(r, special), gen_value<double>::get(r, special)); } };
template <> struct gen_value<long> { static long get(sim::rng &r, bool special) {
    if (special) { static const long s[] = { 0, 1, -1, 2147483647L, -2147483648L, 9223372036854775807L, -9223372036854775807L - 1 }; return s[r.below(7)]; }
    return (long)r.next() >> (int)r.below(60); } };

template <class V> static bool same_bits(const V &a, const V &b) { return std::memcmp(&a, &b, sizeof(V)) == 0; }

template <class Idx, class V> struct Model {
    long n = 0, m = 0;
    std::vector<Idx> ptr, col; std::vector<V> val;      // rows sorted by column
    std::vector<V> dense;                                 // row-major n x m (dense formats)
};

template <class Idx, class V>
static Model<Idx,V> make_model(const Plan &p) {
    Model<Idx,V> M; M.n = p.get("n"); M.m = p.get("m");
    sim::rng r((uint64_t)p.get("mseed"), "c19model");
    bool special = p.get("special") != 0;
    M.ptr.push_back(0);
    bool sym = p.get("symmetric") != 0;
    if (sym) M.m = M.n;
    std::vector<std::map<long, V> > rows(M.n);
    for (long i = 0; i < M.n; ++i) for (long j = 0; j < M.m; ++j) {
        if (sym && j > i) continue;
        if (r.below(100) < (uint64_t)p.get("density")) { V v = gen_value<V>::get(r, special && r.chance(0.5)); rows[i][j] = v; if (sym && i != j) rows[j][i] = v; }
    }
    for (long i = 0; i < M.n; ++i) { for (typename std::map<long,V>::iterator it = rows[i].begin(); it != rows[i].end(); ++it) { M.col.push_back((Idx)it->first); M.val.push_back(it->second); } M.ptr.push_back((Idx)M.col.size()); }
    M.dense.resize((size_t)M.n * M.m);
    for (size_t k = 0; k < M.dense.size(); ++k) M.dense[k] = gen_value<V>::get(r, special && r.chance(0.5));
    return M;
}

template <class V> static const char* mm_kind() { return amgcl::is_complex<V>::value ? "complex" : std::is_integral<V>::value ? "integer" : "real"; }

template <class Idx, class V>
static bytes write_image(const Plan &p, const Model<Idx,V> &M, std::vector<size_t> *data_line_starts = 0) {
    simfs::MemFile f;
    int fmt = (int)p.get("fmt");
    if (fmt == MM_SPARSE && !p.get("symmetric")) {
        amgcl::backend::crs<V, Idx, Idx> A((size_t)M.n, (size_t)M.m, M.ptr, M.col, M.val);
        amgcl::io::mm_write(f.path, A);
    } else if (fmt == MM_SPARSE) {
        // symmetric storage written by the harness: lower triangle only, same number formatting as the library
        std::ostringstream os;
        os << "%%MatrixMarket matrix coordinate " << mm_kind<V>() << " symmetric\n";
        size_t cnt = 0; for (long i = 0; i < M.n; ++i) for (Idx j = M.ptr[i]; j < M.ptr[i+1]; ++j) if (M.col[j] <= i) ++cnt;
        os << M.n << " " << M.n << " " << cnt << "\n";
        for (long i = 0; i < M.n; ++i) for (Idx j = M.ptr[i]; j < M.ptr[i+1]; ++j) if (M.col[j] <= i) { os << i + 1 << " " << M.col[j] + 1 << " "; amgcl::io::detail::write_value(os, M.val[j]) << "\n"; }
        std::string s = os.str(); f.set(bytes(s.begin(), s.end()));
    } else if (fmt == MM_DENSE) {
        static const V dummy = V();
        amgcl::io::mm_write(f.path, M.dense.empty() ? &dummy : M.dense.data(), (size_t)M.n, (size_t)M.m);
    } else if (fmt == BIN_CRS) {
        std::ofstream o(f.path.c_str(), std::ios::binary);
        size_t n = (size_t)M.n; amgcl::io::write(o, n);
        if (!M.ptr.empty()) amgcl::io::write(o, M.ptr);      // the library's own vector writer
        // a CRS file may list the entries of a row in any order (the reader sorts them): shuffled variant
        std::vector<Idx> wc(M.col); std::vector<V> wv(M.val);
        if (p.get("shuffle", 0)) { sim::rng sr((uint64_t)p.get("mseed"), "c19shuffle"); for (long i = 0; i < M.n; ++i) for (Idx a = M.ptr[i+1] - 1; a > M.ptr[i]; --a) { Idx b = M.ptr[i] + (Idx)sr.below((uint64_t)(a - M.ptr[i] + 1)); std::swap(wc[a], wc[b]); std::swap(wv[a], wv[b]); } }
        if (!wc.empty()) amgcl::io::write(o, wc);
        if (!wv.empty()) amgcl::io::write(o, wv);
    } else {
        std::ofstream o(f.path.c_str(), std::ios::binary);
        size_t n = (size_t)M.n, m = (size_t)M.m; amgcl::io::write(o, n); amgcl::io::write(o, m);
        if (!M.dense.empty()) amgcl::io::write(o, M.dense);
    }
    bytes b = f.get();
    if (fmt == MM_SPARSE && p.get("shuffle", 0)) {
        // coordinate entries may come in any order: permute the data lines
        std::vector<size_t> ls = simfs::line_starts(b);
        if (ls.size() > 3) { std::vector<std::string> lines; for (size_t i = 2; i < ls.size(); ++i) { size_t e = i + 1 < ls.size() ? ls[i+1] : b.size(); lines.push_back(std::string(b.begin() + ls[i], b.begin() + e)); }
            if (!lines.empty() && (lines.back().empty() || lines.back().back() != '\n')) lines.back() += "\n";
            sim::rng sr((uint64_t)p.get("mseed"), "c19shuffle"); for (size_t i = lines.size() - 1; i > 0; --i) std::swap(lines[i], lines[sr.below(i + 1)]);
            bytes nb(b.begin(), b.begin() + ls[2]); for (size_t i = 0; i < lines.size(); ++i) nb.insert(nb.end(), lines[i].begin(), lines[i].end()); b.swap(nb); }
    }
    if (data_line_starts && (fmt == MM_SPARSE || fmt == MM_DENSE)) {
        std::vector<size_t> ls = simfs::line_starts(b);
        for (size_t i = 2; i < ls.size(); ++i) data_line_starts->push_back(ls[i]);   // banner, size line, then data
    }
    return b;
}

template <class Idx, class V> struct ReadOut {
    bool threw = false; std::string what; bool nonstd = false;
    size_t rows = 0, cols = 0; std::vector<Idx> ptr, col; std::vector<V> val;
};

template <class Idx, class V, class RV>
static ReadOut<Idx,RV> read_image(int fmt, const bytes &img, long a, long b) {
    ReadOut<Idx,RV> o;
    simfs::MemFile f(img);
    try {
        if (fmt == MM_SPARSE) { amgcl::io::mm_reader rd(f.path); std::tie(o.rows, o.cols) = rd(o.ptr, o.col, o.val, a, b); }
        else if (fmt == MM_DENSE) { amgcl::io::mm_reader rd(f.path); std::tie(o.rows, o.cols) = rd(o.val, a, b); }
        else if (fmt == BIN_CRS) { size_t n = 0; amgcl::io::read_crs(f.path, n, o.ptr, o.col, o.val, a, b); o.rows = o.ptr.empty() ? 0 : o.ptr.size() - 1; o.cols = n; }
        else { size_t n = 0, m = 0; amgcl::io::read_dense(f.path, n, m, o.val, a, b); o.cols = m; o.rows = m ? o.val.size() / m : 0; }
    } catch (const std::exception &e) { o.threw = true; o.what = e.what(); }
    catch (...) { o.threw = true; o.nonstd = true; o.what = "non-std exception"; }
    return o;
}

// structurally valid for the sizes the reader itself reports
template <class Idx, class V>
static std::string validate(int fmt, const ReadOut<Idx,V> &o, long a, long b, long ncols_known) {
    if (fmt == MM_DENSE || fmt == BIN_DENSE) {
        if (o.val.size() != o.rows * o.cols) return fmt == MM_DENSE ? cm::fmt("dense size %zu != %zu x %zu", o.val.size(), o.rows, o.cols) : "";
        return "";
    }
    if (o.ptr.size() != o.rows + 1) return cm::fmt("ptr.size()=%zu rows=%zu", o.ptr.size(), o.rows);
    if (a >= 0 && b >= 0 && (long)o.rows != b - a) return cm::fmt("rows=%zu but range [%ld,%ld) requested", o.rows, a, b);
    if (o.ptr[0] != 0) return "ptr[0] != 0";
    for (size_t i = 0; i < o.rows; ++i) if (o.ptr[i+1] < o.ptr[i]) return cm::fmt("ptr not monotone at %zu", i);
    if ((size_t)o.ptr.back() != o.col.size() || o.col.size() != o.val.size()) return cm::fmt("ptr.back()=%ld col=%zu val=%zu", (long)o.ptr.back(), o.col.size(), o.val.size());
    size_t cols = o.cols; (void)ncols_known;
    // the binary CRS format stores no column count: only the sign of a column index can be judged there
    if (fmt == BIN_CRS) { for (size_t j = 0; j < o.col.size(); ++j) if (o.col[j] < 0) return cm::fmt("negative column %ld at entry %zu", (long)o.col[j], j); return ""; }
    for (size_t j = 0; j < o.col.size(); ++j) if (o.col[j] < 0 || (size_t)o.col[j] >= cols) return cm::fmt("column %ld out of range [0,%zu) at entry %zu", (long)o.col[j], cols, j);
    return "";
}

template <class Idx, class V>
static std::string compare_model(int fmt, const Model<Idx,V> &M, const ReadOut<Idx,V> &o, long a, long b) {
    if (o.threw) return "reader threw on a valid file: " + o.what;
    if (a < 0) a = 0; if (b < 0) b = M.n;
    if ((long)o.rows != b - a) return cm::fmt("rows %zu, expected %ld", o.rows, b - a);
    if (fmt == MM_DENSE || fmt == BIN_DENSE) {
        if ((long)o.cols != M.m) return cm::fmt("cols %zu expected %ld", o.cols, M.m);
        for (long i = a; i < b; ++i) for (long j = 0; j < M.m; ++j) if (!same_bits(o.val[(i - a) * M.m + j], M.dense[i * M.m + j])) return cm::fmt("dense value (%ld,%ld) differs", i, j);
        return "";
    }
    if (fmt == MM_SPARSE && (long)o.cols != M.m) return cm::fmt("cols %zu expected %ld", o.cols, M.m);
    for (long i = a; i < b; ++i) {
        Idx w = M.ptr[i+1] - M.ptr[i];
        if (o.ptr[i - a + 1] - o.ptr[i - a] != w) return cm::fmt("row %ld has %ld entries, expected %ld", i, (long)(o.ptr[i-a+1] - o.ptr[i-a]), (long)w);
        for (Idx k = 0; k < w; ++k) {
            if (o.col[o.ptr[i-a] + k] != M.col[M.ptr[i] + k]) return cm::fmt("row %ld entry %ld: col %ld expected %ld", i, (long)k, (long)o.col[o.ptr[i-a] + k], (long)M.col[M.ptr[i] + k]);
            if (!same_bits(o.val[o.ptr[i-a] + k], M.val[M.ptr[i] + k])) return cm::fmt("row %ld col %ld: value bits differ", i, (long)M.col[M.ptr[i] + k]);
        }
    }
    return "";
}

static void apply_op(bytes &b, const Op &o) {
    size_t k = b.empty() ? 0 : (size_t)(o.a.size() > 0 ? o.a[0] : 0) % (b.size() + 1);
    if (o.kind == "truncate") simfs::truncate(b, k);
    else if (o.kind == "flip") simfs::flip(b, b.empty() ? 0 : k % b.size(), 1u << ((o.a.size() > 1 ? o.a[1] : 0) & 7));
    else if (o.kind == "set") simfs::set_byte(b, b.empty() ? 0 : k % b.size(), (unsigned)(o.a.size() > 1 ? o.a[1] : 0) & 255);
    else if (o.kind == "zero_tail") simfs::zero_tail(b, k);
    else if (o.kind == "drop_line") { std::vector<size_t> ls = simfs::line_starts(b); if (!ls.empty()) simfs::drop_line(b, (size_t)o.a[0] % ls.size()); }
    else if (o.kind == "dup_line") { std::vector<size_t> ls = simfs::line_starts(b); if (!ls.empty()) simfs::dup_line(b, (size_t)o.a[0] % ls.size()); }
}

#if defined(__SANITIZE_ADDRESS__)
// ASan's operator new dies instead of throwing on absurd sizes; images whose size fields imply a huge allocation are
// exercised in the plain flavour only (where they end in std::bad_alloc / length_error)
template <class Idx>
static bool implies_huge_alloc(int fmt, const bytes &b) {
    if (fmt == BIN_CRS || fmt == BIN_DENSE) {
        if (b.size() < 8) return false;
        uint64_t n; std::memcpy(&n, b.data(), 8); if (n > (1u << 22)) return true;
        if (fmt == BIN_CRS) {
            // the row pointers become vector sizes: look at them the way the reader will
            for (uint64_t i = 0; i <= n && 8 + (i + 1) * sizeof(Idx) <= b.size(); ++i) { Idx v; std::memcpy(&v, b.data() + 8 + i * sizeof(Idx), sizeof(Idx)); if (v > (Idx)(1 << 24)) return true; }
        }
        if (fmt == BIN_DENSE && b.size() >= 16) { uint64_t m; std::memcpy(&m, b.data() + 8, 8); if (m > (1u << 22) || n * m > (1u << 24)) return true; }
        return false;
    }
    std::vector<size_t> ls = simfs::line_starts(b);
    for (size_t i = 1; i < ls.size(); ++i) {
        if (b[ls[i]] == '%') continue;
        size_t e = (i + 1 < ls.size()) ? ls[i+1] : b.size();
        std::string line(b.begin() + ls[i], b.begin() + e);
        double x[3] = {0, 0, 0}; sscanf(line.c_str(), "%lf %lf %lf", &x[0], &x[1], &x[2]);
        return x[0] > 4e6 || x[1] > 4e6 || x[2] > 4e6 || x[0] * x[1] > 1.6e7 || x[0] < 0 || x[1] < 0 || x[2] < 0;
    }
    return false;
}
#else
template <class Idx> static bool implies_huge_alloc(int, const bytes &) { return false; }
#endif

template <class Idx, class V>
static void run_typed(const Plan &p, Result &res) {
    int fmt = (int)p.get("fmt"), mode = (int)p.get("mode");
    Model<Idx,V> M = make_model<Idx,V>(p);
    std::vector<size_t> dls;
    bytes img = write_image(p, M, &dls);
    long a = -1, b = -1;
    if (p.get("range")) { a = std::min(p.get("ra"), M.n); b = std::min(std::max(a, p.get("rb")), M.n); }
    auto sig = [&](const char *oracle, const char *clause, const std::string &detail) {
        Violation v; v.oracle = oracle; v.add("component", fmt_names[fmt]); v.add("clause", clause); v.add("value_type", vt_names[p.get("vt")]); v.add("mode", mode_names[mode]); v.detail = detail; return v; };
    res.hash = sim::hash_combine(res.hash, sim::hash_bytes(img.data(), img.size()));

    if (mode == M_ROUNDTRIP) {
        ReadOut<Idx,V> full = read_image<Idx,V,V>(fmt, img, -1, -1);
        std::string e = compare_model(fmt, M, full, -1, -1);
        if (!e.empty()) res.fail(sig("roundtrip-bitwise", "full-read", e));
        ReadOut<Idx,V> part = read_image<Idx,V,V>(fmt, img, a, b);
        e = compare_model(fmt, M, part, a, b);
        if (!e.empty()) res.fail(sig("roundtrip-bitwise", "row-range", cm::fmt("[%ld,%ld): ", a, b) + e));
        // size / kind queries on the same image
        try {
            simfs::MemFile hf(img);
            if (fmt == BIN_CRS) { size_t n1 = amgcl::io::crs_size<size_t>(hf.path); if ((long)n1 != M.n) res.fail(sig("roundtrip-bitwise", "crs_size", cm::fmt("crs_size %zu, written %ld", n1, M.n))); }
            else if (fmt == BIN_DENSE) { size_t n1 = 0, m1 = 0; amgcl::io::dense_size(hf.path, n1, m1); if ((long)n1 != M.n || (long)m1 != M.m) res.fail(sig("roundtrip-bitwise", "dense_size", cm::fmt("dense_size %zu x %zu, written %ld x %ld", n1, m1, M.n, M.m))); }
            else { amgcl::io::mm_reader rd(hf.path);
                bool sparse = fmt == MM_SPARSE, cplx = amgcl::is_complex<V>::value, integer = std::is_integral<V>::value;
                if (rd.is_sparse() != sparse || rd.is_complex() != cplx || rd.is_integer() != integer || rd.is_symmetric() != (p.get("symmetric") != 0 && sparse) || (long)rd.rows() != M.n || (long)rd.cols() != M.m)
                    res.fail(sig("roundtrip-bitwise", "header-queries", cm::fmt("reader reports sparse=%d complex=%d integer=%d symmetric=%d %zu x %zu for a %s %s file of %ld x %ld", (int)rd.is_sparse(), (int)rd.is_complex(), (int)rd.is_integer(), (int)rd.is_symmetric(), rd.rows(), rd.cols(), sparse ? "coordinate" : "array", mm_kind<V>(), M.n, M.m))); }
        } catch (const std::exception &e) { res.fail(sig("roundtrip-bitwise", "header-queries", std::string("threw on a valid file: ") + e.what())); }
        res.counts["roundtrip_reads"] += 2;
        res.nontrivial = M.n > 0 && (fmt == MM_DENSE || fmt == BIN_DENSE ? M.m > 0 : !M.col.empty());
        return;
    }

    auto check_damaged = [&](const bytes &d, bool must_throw, const char *what, const std::string &ctx) {
        if (implies_huge_alloc<Idx>(fmt, d)) { res.counts["skipped_huge_alloc_in_asan"]++; return; }
        ReadOut<Idx,V> o = read_image<Idx,V,V>(fmt, d, a, b);
        res.counts["damaged_reads"]++;
        res.hash = sim::hash_combine(res.hash, o.threw ? sim::hash_str(o.what.c_str()) : vec_digest(o.val));
        if (o.threw) { res.counts["reader_threw"]++; if (o.nonstd) res.fail(sig("exception-is-std", what, ctx)); return; }
        res.counts["reader_accepted"]++;
        if (must_throw) { res.fail(sig("must-throw", what, ctx + ": reader accepted the file")); return; }
        std::string e = validate(fmt, o, a, b, M.m);
        if (!e.empty()) res.fail(sig("valid-or-throws", what, ctx + ": " + e));
    };

    if (mode == M_TRUNCATE_ALL) {
        // every truncation point of this image; a cut at or before the start of the last data line loses at least
        // that whole line (text formats); any cut loses bytes a full read needs (binary formats)
        size_t last_line = dls.empty() ? 0 : dls.back();
        for (size_t k = 0; k < img.size(); ++k) {
            bytes d = img; simfs::truncate(d, k);
            bool must = false;
            if (fmt == MM_SPARSE || fmt == MM_DENSE) must = !dls.empty() ? k <= last_line : false;
            else must = (a < 0);          // full read of a binary image needs every byte
            // a text image without data lines: the size line may legitimately survive a cut of trailing bytes
            if ((fmt == MM_SPARSE || fmt == MM_DENSE) && dls.empty()) must = false;
            check_damaged(d, must, "truncation", cm::fmt("truncate at byte %zu of %zu", k, img.size()));
            res.faults["truncate"]++;
        }
        res.counts["exhaustive_truncation_sweeps"]++;
        res.nontrivial = img.size() > 40;
        return;
    }
    if (mode == M_KIND_MISMATCH) {
        // read with a different value kind than stored (text formats only: the binary format has no kind field)
        if (fmt == MM_SPARSE || fmt == MM_DENSE) {
            bool threw;
            if (amgcl::is_complex<V>::value) { ReadOut<Idx,double> o = read_image<Idx,V,double>(fmt, img, a, b); threw = o.threw; }
            else if (std::is_integral<V>::value) { ReadOut<Idx,double> o = read_image<Idx,V,double>(fmt, img, a, b); threw = o.threw; }
            else {
                if (p.get("sub") & 1) { ReadOut<Idx,std::complex<double> > o = read_image<Idx,V,std::complex<double> >(fmt, img, a, b); threw = o.threw; }
                else { ReadOut<Idx,long> o = read_image<Idx,V,long>(fmt, img, a, b); threw = o.threw; }
            }
            res.faults["kind_mismatch"]++; res.counts["damaged_reads"]++;
            if (!threw) res.fail(sig("must-throw", "value-kind-mismatch", "file of one value kind read into another without an exception"));
            // sparse file read as dense and vice versa
            ReadOut<Idx,V> o2 = read_image<Idx,V,V>(fmt == MM_SPARSE ? MM_DENSE : MM_SPARSE, img, a, b);
            if (!o2.threw) res.fail(sig("must-throw", "storage-kind-mismatch", "coordinate/array mismatch accepted"));
            res.nontrivial = true;
        }
        return;
    }
    if (mode == M_BANNER) {
        if (fmt == MM_SPARSE || fmt == MM_DENSE) {
            // change one letter of one of the five banner tokens
            size_t eol = 0; while (eol < img.size() && img[eol] != '\n') ++eol;
            std::vector<size_t> letters; for (size_t i = 0; i < eol; ++i) if (std::isalpha(img[i])) letters.push_back(i);
            if (!letters.empty()) {
                size_t pos = letters[(size_t)p.get("sub") % letters.size()];
                bytes d = img; d[pos] = (unsigned char)(d[pos] == 'q' ? 'z' : 'q');
                check_damaged(d, true, "corrupted-banner", cm::fmt("banner letter at byte %zu replaced", pos));
                res.faults["banner_corruption"]++;
                res.nontrivial = true;
            }
        }
        return;
    }
    if (mode == M_SIZES) {
        if (fmt == MM_SPARSE || fmt == MM_DENSE) {
            // declare more entries / rows than the file holds
            std::vector<size_t> ls = simfs::line_starts(img);
            if (ls.size() >= 2) {
                size_t beg = ls[1], end = ls.size() > 2 ? ls[2] : img.size();
                std::string line(img.begin() + beg, img.begin() + end);
                long x[3] = {0, 0, 0}; int got = sscanf(line.c_str(), "%ld %ld %ld", &x[0], &x[1], &x[2]);
                long extra = 1 + p.get("sub") % 3;
                std::string nl;
                if (fmt == MM_SPARSE && got == 3) nl = cm::fmt("%ld %ld %ld\n", x[0], x[1], x[2] + extra);
                else if (fmt == MM_DENSE && got >= 2 && x[1] > 0) nl = cm::fmt("%ld %ld\n", x[0] + extra, x[1]);
                // other size fields moved by one in either direction: the reader may accept or reject, but never return an invalid matrix
                if (got >= 2) for (int var = 0; var < 4; ++var) {
                    long y[3] = { x[0], x[1], x[2] }; y[var / 2] += (var % 2) ? 1 : -1; if (y[var / 2] < 0) continue;
                    std::string l2 = fmt == MM_SPARSE ? cm::fmt("%ld %ld %ld\n", y[0], y[1], y[2]) : cm::fmt("%ld %ld\n", y[0], y[1]);
                    bytes d2(img.begin(), img.begin() + beg); d2.insert(d2.end(), l2.begin(), l2.end()); d2.insert(d2.end(), img.begin() + end, img.end());
                    check_damaged(d2, false, "altered-size-line", "size line replaced by: " + l2.substr(0, l2.size() - 1));
                    res.faults["size_field_off_by_one"]++;
                }
                if (!nl.empty()) {
                    bytes d(img.begin(), img.begin() + beg); d.insert(d.end(), nl.begin(), nl.end()); d.insert(d.end(), img.begin() + end, img.end());
                    long sa = a, sb = b; if (fmt == MM_DENSE) { a = -1; b = -1; }
                    check_damaged(d, true, "inconsistent-sizes", "size line declares more data than the file holds: " + nl.substr(0, nl.size() - 1));
                    a = sa; b = sb;
                    res.faults["size_inconsistency"]++; res.nontrivial = true;
                }
            }
        } else {
            // binary: n larger than what the file holds
            if (img.size() >= 8) {
                bytes d = img; uint64_t n; std::memcpy(&n, d.data(), 8); n += 1 + (uint64_t)(p.get("sub") % 3); std::memcpy(d.data(), &n, 8);
                long sa = a, sb = b; a = -1; b = -1;
                check_damaged(d, true, "inconsistent-sizes", "row count field larger than the data present");
                a = sa; b = sb;
                res.faults["size_inconsistency"]++; res.nontrivial = true;
            }
        }
        return;
    }
    // M_FAULTS: explicit fault ops, any combination; reader must throw or return something valid
    bytes d = img;
    for (size_t i = 0; i < p.ops.size(); ++i) { apply_op(d, p.ops[i]); res.faults[p.ops[i].kind]++; }
    check_damaged(d, false, "damaged-image", cm::fmt("%zu fault ops, image %zu -> %zu bytes", p.ops.size(), img.size(), d.size()));
    res.nontrivial = d != img;
}

Plan generate(uint64_t seed, uint64_t run, bool thorough) {
    sim::rng r(seed, "world", run);
    Plan p;
    static const int modes[] = { M_ROUNDTRIP, M_ROUNDTRIP, M_FAULTS, M_FAULTS, M_FAULTS, M_FAULTS, M_TRUNCATE_ALL, M_KIND_MISMATCH, M_BANNER, M_SIZES };
    int mode = modes[r.below(10)];
    p.set("mode", mode, mode);
    int fmt = (int)r.below(NFMT);
    p.set("fmt", fmt, fmt);
    int vt = (int)r.below(NVT);
    p.set("vt", vt, vt);
    p.set("idx32", r.range(0, 1), 0);
    long nmax = mode == M_TRUNCATE_ALL ? 6 : (thorough ? 40 : 20);
    p.set("n", r.range(0, nmax), 0);
    p.set("m", r.range(fmt == MM_DENSE || fmt == BIN_DENSE ? 1 : 1, mode == M_TRUNCATE_ALL ? 4 : 12), 1);
    p.set("density", r.range(0, 70), 0);
    p.set("mseed", (long)(r.next() >> 16), 0);
    p.set("special", r.range(0, 1), 0); p.set("shuffle", r.range(0, 1), 0);
    p.set("symmetric", (fmt == MM_SPARSE && r.chance(0.2)) ? 1 : 0, 0);
    p.set("range", r.range(0, 1), 0);
    p.set("ra", r.range(0, nmax), 0);
    p.set("rb", r.range(0, nmax), 0);
    p.set("sub", r.range(0, 1000), 0);
    if (mode == M_FAULTS) {
        int nops = (int)r.range(1, 3);
        static const char *kinds[] = { "truncate", "flip", "flip", "set", "set", "zero_tail", "drop_line", "dup_line" };
        for (int i = 0; i < nops; ++i) {
            Op o; o.kind = kinds[r.below(8)];
            // bias positions to the head of the file (banner, size line, index fields, ptr section)
            long pos = r.chance(0.5) ? r.range(0, 80) : r.range(0, 100000);
            o.a.push_back(pos); o.a.push_back(o.kind == "set" ? (long)"0123456789 -+.eE%\n\0\377"[r.below(20)] : r.range(0, 7));
            p.ops.push_back(o);
        }
        p.min_ops = 1;
    }
    p.sched.strategy = sim::CANONICAL;
    return p;
}

Result execute(const Plan &p) {
    Result res;
    int vt = (int)p.get("vt"); bool i32 = p.get("idx32") != 0;
    sim::RunStatus st = world(1, canonical(), [&]() {
        switch (vt) {
            case V_DOUBLE: if (i32) run_typed<int, double>(p, res); else run_typed<ptrdiff_t, double>(p, res); break;
            case V_FLOAT: if (i32) run_typed<int, float>(p, res); else run_typed<ptrdiff_t, float>(p, res); break;
            case V_COMPLEX: if (i32) run_typed<int, std::complex<double> >(p, res); else run_typed<ptrdiff_t, std::complex<double> >(p, res); break;
            default: if (i32) run_typed<int, long>(p, res); else run_typed<ptrdiff_t, long>(p, res); break;
        }
    });
    res.absorb(st);
    res.counts[std::string("mode_") + mode_names[p.get("mode")]]++;
    res.counts[std::string("fmt_") + fmt_names[p.get("fmt")]]++;
    uint64_t key = res.hash;
    for (size_t i = 0; i < p.ops.size(); ++i) { key = sim::hash_combine(key, sim::hash_str(p.ops[i].kind.c_str())); for (size_t k = 0; k < p.ops[i].a.size(); ++k) key = sim::hash_combine(key, (uint64_t)p.ops[i].a[k]); }
    key = sim::hash_combine(key, (uint64_t)(p.get("mode") * 1000 + p.get("range") * 100 + p.get("ra") * 10 + p.get("rb")));
    res.key = key;
    js::Value s = js::Value::object();
    s.set("mode", mode_names[p.get("mode")]); s.set("format", fmt_names[p.get("fmt")]); s.set("value_type", vt_names[vt]); s.set("index", i32 ? "int" : "ptrdiff_t");
    s.set("n", p.get("n")); s.set("m", p.get("m")); s.set("symmetric", p.get("symmetric")); s.set("special_values", p.get("special")); s.set("entries_shuffled", p.get("shuffle"));
    if (p.get("range")) { s.set("row_range_begin", p.get("ra")); s.set("row_range_end", p.get("rb")); }
    js::Value ops = js::Value::array(); for (size_t i = 0; i < p.ops.size(); ++i) { js::Value o = js::Value::array(); o.push(p.ops[i].kind); for (size_t k = 0; k < p.ops[i].a.size(); ++k) o.push(p.ops[i].a[k]); ops.push(o); }
    s.set("fault_ops", ops);
    res.sample = s;
    return res;
}
