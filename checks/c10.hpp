// shared between c10.cpp and c10_valued.cpp
#ifndef AMGSIM_C10_HPP
#define AMGSIM_C10_HPP
#include <vector>
#include <string>
#include <boost/property_tree/ptree.hpp>
#include "common.hpp"
namespace c10 {
struct Out { std::vector<double> vals; std::string text; std::string exc;
    uint64_t digest() const { uint64_t h = cm::vec_digest(vals); h = sim::hash_bytes(text.data(), text.size(), h); return sim::hash_bytes(exc.data(), exc.size(), h); } };
void run_block_world(const hz::Plan &p, const boost::property_tree::ptree &prm, const gen::Csr &A, const std::vector<double> &rhs, Out &o);
void run_complex_world(const hz::Plan &p, const boost::property_tree::ptree &prm, const gen::Csr &A, const std::vector<double> &rhs, Out &o);
}
#endif
