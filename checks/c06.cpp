// C06 — every relaxation sweep equals its mathematical definition.
// Decided by simulation: the parallel level-scheduled triangular solves (ILU family, Gauss-Seidel) equal the serial
// ones under every explored schedule and thread count.  Evaluated as invariants in the same simulated worlds: the
// exact solution is a fixed point of every smoother; damped Jacobi / Gauss-Seidel / SPAI-0 formulas; (LU)_ij = a_ij
// on the pattern of A for the ILU family, exactness on tridiagonal and arrow matrices and for ILU(k >= n); SPAI-1
// rows solve their least-squares normal equations.
#include "common.hpp"
#include <Eigen/Dense>
#include <amgcl/relaxation/damped_jacobi.hpp>
#include <amgcl/relaxation/gauss_seidel.hpp>
#include <amgcl/relaxation/spai0.hpp>
#include <amgcl/relaxation/spai1.hpp>
#include <amgcl/relaxation/chebyshev.hpp>
#include <amgcl/relaxation/ilu0.hpp>
#include <amgcl/relaxation/iluk.hpp>
#include <amgcl/relaxation/ilup.hpp>
#include <amgcl/relaxation/ilut.hpp>
#include <amgcl/relaxation/as_preconditioner.hpp>
#include <amgcl/value_type/static_matrix.hpp>
#include <amgcl/value_type/complex.hpp>
#include <amgcl/adapter/block_matrix.hpp>
#include <complex>
#include "harness_main.hpp"

const char *CHECK_ID = "C06";
using namespace cm;
using hz::Plan; using hz::Result; using hz::Violation;
namespace rx = amgcl::relaxation;

enum { R_JACOBI, R_GS, R_SPAI0, R_SPAI1, R_CHEB, R_ILU0, R_ILUK, R_ILUP, R_ILUT, NRELAX };
static const char *relax_names[] = { "damped_jacobi", "gauss_seidel", "spai0", "spai1", "chebyshev", "ilu0", "iluk", "ilup", "ilut" };
enum { S_FAMILY = 0, S_TRIDIAG = 1, S_ARROW = 2 };

static gen::Csr special_matrix(int shape, long n, uint64_t ms) {
    sim::rng r(ms, "special"); gen::Builder b(n, n);
    if (shape == S_TRIDIAG) { for (long i = 0; i < n; ++i) { b.set(i, i, gen::dyadic(r, 40, 80)); if (i > 0) b.set(i, i-1, -gen::dyadic(r, 4, 16)); if (i + 1 < n) b.set(i, i+1, -gen::dyadic(r, 4, 16)); } }
    else { for (long i = 0; i < n; ++i) { b.set(i, i, gen::dyadic(r, 16, 40) + (i + 1 == n ? (double)n : 0.0)); if (i + 1 < n) { b.set(i, n-1, -gen::dyadic(r, 2, 8)); b.set(n-1, i, -gen::dyadic(r, 2, 8)); } } }   // arrow pointing to the last row/column: no fill
    return b.finish();
}


// Reference ILU(k) (level rule of the library: lev = max(lev_ik, lev_kj) + 1, entries of A have level 0), textbook form: a row is
// eliminated in a dense work array, levels take the minimum over all updates, entries above level k are dropped at the END of the
// row.  The library drops an update aimed at a not yet existing position at once; the two agree unless a position that had
// collected an above-k update is admitted later ("late admission"; recorded deviation, DESIGN 5.3 row 11) - those worlds are skipped.
struct RefIluk { Eigen::MatrixXd LU; bool late = false; bool breakdown = false; long fill = 0, lowered = 0; };
static RefIluk ref_iluk(const gen::Csr &A, int k) {
    const long n = A.n; const int INF = 1 << 28; RefIluk r;
    std::vector<long double> F((size_t)n * n, 0.0L); std::vector<int> lev((size_t)n * n, INF);      // F holds L (strict lower, multipliers) and U (upper incl. diagonal)
    for (long i = 0; i < n; ++i) for (ptrdiff_t j = A.ptr[i]; j < A.ptr[i+1]; ++j) { F[(size_t)i * n + A.col[j]] += A.val[j]; lev[(size_t)i * n + A.col[j]] = 0; }
    for (long i = 0; i < n; ++i) {
        long double *row = &F[(size_t)i * n]; int *lr = &lev[(size_t)i * n];
        for (long c = 0; c < i; ++c) {
            if (lr[c] > k) continue;                                   // not (or not yet) admitted: no multiplier
            long double piv = F[(size_t)c * n + c]; if (piv == 0) { r.breakdown = true; return r; }
            long double m = row[c] / piv; row[c] = m;
            for (long j = c + 1; j < n; ++j) { int lu = lev[(size_t)c * n + j]; if (lu > k) continue;
                int nl = std::max(lr[c], lu) + 1;
                row[j] -= m * F[(size_t)c * n + j];
                if (nl < lr[j]) { if (lr[j] != INF && lr[j] > k && nl <= k) r.late = true; if (lr[j] != INF && lr[j] <= k) ++r.lowered; lr[j] = nl; } }
        }
        for (long j = 0; j < n; ++j) { if (lr[j] > k) { if (lr[j] != INF && j < i) { /* an above-k entry left of the diagonal was never used as a multiplier */ } row[j] = 0; lr[j] = INF; } else if (lr[j] > 0) ++r.fill; }
        if (row[i] == 0) { r.breakdown = true; return r; }
    }
    r.LU = Eigen::MatrixXd::Zero(n, n);
    for (long i = 0; i < n; ++i) for (long j = 0; j < n; ++j) { long double s = 0; for (long t = 0; t <= std::min(i, j); ++t) { long double l = t == i ? 1.0L : F[(size_t)i * n + t], u = F[(size_t)t * n + j]; if (t < i && lev[(size_t)i * n + t] > k) l = 0; s += l * u; } r.LU(i, j) = (double)s; }
    return r;
}


// Reference ILUT with the library's dual-threshold rule (ilut.hpp): row tolerance tau * sum|a_ij| / (lenL + lenU); a multiplier
// below the tolerance updates nothing; at the end of the row entries <= tolerance are dropped and the int(lenL*p) largest of L and
// the int(lenU*p) largest of the diagonal-plus-U part (diagonal always first) are kept.  Worlds in which a comparison is decided by
// less than a relative 1e-9 (ties of equal magnitudes) are ambiguous for std::nth_element and are skipped.
struct RefIlut { Eigen::MatrixXd LU; bool ambiguous = false, breakdown = false; long dropped = 0, fill = 0; };
static RefIlut ref_ilut(const gen::Csr &A, double p, double tau) {
    const long n = A.n; RefIlut r;
    std::vector<std::vector<std::pair<long, long double> > > Lr(n), Ur(n); std::vector<long double> Dg(n, 0.0L);
    auto close = [](long double a, long double b) { return fabsl(a - b) <= 1e-9L * std::max(fabsl(a), fabsl(b)); };
    for (long i = 0; i < n; ++i) {
        std::vector<long double> w(n, 0.0L); std::vector<char> pres(n, 0); long lenL = 0, lenU = 0; long double tol = 0;
        for (ptrdiff_t j = A.ptr[i]; j < A.ptr[i+1]; ++j) { long c = A.col[j]; w[c] = A.val[j]; pres[c] = 1; tol += fabsl((long double)A.val[j]); if (c < i) ++lenL; if (c > i) ++lenU; }
        if (lenL + lenU == 0) { r.breakdown = true; return r; }      // the library divides by lenL + lenU
        tol *= (long double)tau / (long double)(lenL + lenU);
        for (long k = 0; k < i; ++k) if (pres[k]) {
            w[k] = w[k] / Dg[k]; long double wk = w[k];
            if (close(fabsl(wk), tol) && tol > 0) r.ambiguous = true;
            if (fabsl(wk) > tol) for (size_t q = 0; q < Ur[k].size(); ++q) { long c = Ur[k][q].first; if (!pres[c]) { pres[c] = 1; if (c != i) ++r.fill; } w[c] -= wk * Ur[k][q].second; }
        }
        std::vector<std::pair<long double, long> > Lc, Uc;      // (|value|, column)
        for (long c = 0; c < n; ++c) if (pres[c] && c != i) { long double a = fabsl(w[c]); if (close(a, tol) && tol > 0) r.ambiguous = true; if (a > tol) (c < i ? Lc : Uc).push_back(std::make_pair(a, c)); else ++r.dropped; }
        if (!pres[i] || w[i] == 0) { r.breakdown = true; return r; }
        long lp = (long)(int)(lenL * p), up = (long)(int)(lenU * p);
        auto keep = [&](std::vector<std::pair<long double, long> > &v, long cnt) { std::sort(v.begin(), v.end(), [](const std::pair<long double,long> &a, const std::pair<long double,long> &b) { return a.first > b.first; });
            if (cnt < 0) cnt = 0; if ((long)v.size() > cnt) { if (cnt > 0 && close(v[cnt-1].first, v[cnt].first)) r.ambiguous = true; r.dropped += (long)v.size() - cnt; v.resize(cnt); } };
        keep(Lc, lp); keep(Uc, up - 1);      // the diagonal takes one of the 'up' places
        for (size_t q = 0; q < Lc.size(); ++q) Lr[i].push_back(std::make_pair(Lc[q].second, w[Lc[q].second]));
        for (size_t q = 0; q < Uc.size(); ++q) Ur[i].push_back(std::make_pair(Uc[q].second, w[Uc[q].second]));
        Dg[i] = w[i];
    }
    r.LU = Eigen::MatrixXd::Zero(n, n);
    for (long i = 0; i < n; ++i) {
        // row i of (I + L) * (D + U)
        std::vector<long double> row(n, 0.0L);
        auto addU = [&](long t, long double f) { row[t] += f * Dg[t]; for (size_t q = 0; q < Ur[t].size(); ++q) row[Ur[t][q].first] += f * Ur[t][q].second; };
        addU(i, 1.0L); for (size_t q = 0; q < Lr[i].size(); ++q) addU(Lr[i][q].first, Lr[i][q].second);
        for (long j = 0; j < n; ++j) r.LU(i, j) = (double)row[j];
    }
    return r;
}

struct W { gen::Csr A; std::shared_ptr<DMatrix> M; std::vector<double> xs, f, x0; long n; };

template <class R, class P>
static void sweep(const R &r, const W &w, std::vector<double> &x, bool pre, const P &) { std::vector<double> tmp(w.n); if (pre) r.apply_pre(*w.M, w.f, x, tmp); else r.apply_post(*w.M, w.f, x, tmp); }

// M^-1 as a dense matrix: column j = one sweep from x = 0 with f = e_j
template <class R>
static Eigen::MatrixXd extract(const R &r, const W &w, bool pre) {
    Eigen::MatrixXd B(w.n, w.n); std::vector<double> e(w.n), x(w.n), tmp(w.n);
    for (long j = 0; j < w.n; ++j) { std::fill(e.begin(), e.end(), 0.0); e[j] = 1; std::fill(x.begin(), x.end(), 0.0); if (pre) r.apply_pre(*w.M, e, x, tmp); else r.apply_post(*w.M, e, x, tmp); for (long i = 0; i < w.n; ++i) B(i, j) = x[i]; }
    return B;
}
static Eigen::MatrixXd edense(const gen::Csr &A) { Eigen::MatrixXd D = Eigen::MatrixXd::Zero(A.n, A.m); for (long i = 0; i < A.n; ++i) for (ptrdiff_t j = A.ptr[i]; j < A.ptr[i+1]; ++j) D(i, A.col[j]) += A.val[j]; return D; }


// block-valued (2x2, non-commuting blocks) ILU on block tridiagonal / arrow matrices: the factors fit, so one sweep from
// x = 0 must return the solution of the unblocked system
template <template <class> class Relax, class Setup>
static void block_ilu_exact(const Plan &p, Result &res, const char *name, Setup setup) {
    typedef amgcl::static_matrix<double,2,2> B; typedef amgcl::static_matrix<double,2,1> Rv; typedef amgcl::backend::builtin<B> BB;
    long nb = std::min<long>(std::max<long>(p.get("n"), 2), 30); int shape = p.get("shape") == S_ARROW ? S_ARROW : S_TRIDIAG;
    gen::Csr S = special_matrix(shape, nb, (uint64_t)p.get("mseed"));
    auto A = std::make_shared<amgcl::backend::crs<B> >(); A->set_size(nb, nb, false); for (long i = 0; i <= nb; ++i) A->ptr[i] = S.ptr[i]; A->set_nonzeros(S.nnz());
    sim::rng r((uint64_t)p.get("mseed"), "c06blocks");
    Eigen::MatrixXd D = Eigen::MatrixXd::Zero(2 * nb, 2 * nb);
    for (long i = 0; i < nb; ++i) for (ptrdiff_t j = S.ptr[i]; j < S.ptr[i+1]; ++j) { A->col[j] = S.col[j]; B b; for (int a = 0; a < 2; ++a) for (int c = 0; c < 2; ++c) b(a, c) = (double)r.range(-3, 3) / 4.0;
        if (S.col[j] == i) { b(0, 0) += 8 + (shape == S_ARROW && i + 1 == nb ? 4.0 * nb : 0.0); b(1, 1) += 9 + (shape == S_ARROW && i + 1 == nb ? 4.0 * nb : 0.0); }
        A->val[j] = b; for (int a = 0; a < 2; ++a) for (int c = 0; c < 2; ++c) D(2 * i + a, 2 * S.col[j] + c) = b(a, c); }
    typedef Relax<BB> R; typename R::params prm; setup(prm); prm.solve.serial = (p.get("vseed") & 1) != 0;
    R rl(*A, prm, typename BB::params());
    Eigen::VectorXd xs(2 * nb); for (long i = 0; i < 2 * nb; ++i) xs[i] = (double)r.range(-8, 8);
    Eigen::VectorXd f = D * xs;
    std::vector<Rv> rhs(nb), x(nb), tmp(nb); for (long i = 0; i < nb; ++i) { rhs[i](0) = f[2*i]; rhs[i](1) = f[2*i+1]; x[i] = amgcl::math::zero<Rv>(); }
    rl.apply_pre(*A, rhs, x, tmp);
    double worst = 0; for (long i = 0; i < nb; ++i) for (int a = 0; a < 2; ++a) worst = std::max(worst, std::fabs(x[i](a) - xs[2*i+a]));
    if (!(worst <= 1e-9 * (1 + xs.cwiseAbs().maxCoeff()))) { Violation v; v.oracle = "ilu-exact-when-factors-fit"; v.add("component", name); v.add("clause", "block-valued"); v.add("shape", shape == S_ARROW ? "arrow" : "tridiagonal"); v.detail = fmt("2x2 blocks: one sweep from zero misses the solution by %.3g", worst); res.fail(v); }
    res.counts["block_ilu_exactness"]++;
}


// ---- complex / 2x2-block valued smoothers: fixed point of the exact solution, Jacobi and Gauss-Seidel by their definitions in the
// value type's own (non-commutative) algebra, level-scheduled Gauss-Seidel == serial ----------------------------------------------
template <class V> struct c06v;
template <> struct c06v<std::complex<double> > { static const char* name() { return "complex"; }
    static std::shared_ptr<amgcl::backend::crs<std::complex<double> > > matrix(const gen::Csr &G, uint64_t seed) { auto M = std::make_shared<amgcl::backend::crs<std::complex<double> > >(); M->set_size(G.n, G.n, false); for (long i = 0; i <= G.n; ++i) M->ptr[i] = G.ptr[i]; M->set_nonzeros(G.nnz());
        for (long i = 0; i < G.n; ++i) for (ptrdiff_t j = G.ptr[i]; j < G.ptr[i+1]; ++j) { M->col[j] = G.col[j]; uint64_t h = sim::hash_combine((uint64_t)i * 2654435761u + (uint64_t)G.col[j], seed); M->val[j] = std::complex<double>(G.val[j], G.col[j] == i ? 0.0 : G.val[j] * (double)((long)(h % 9) - 4) / 16.0); } return M; }
    static std::complex<double> rhs(long a, long b) { return std::complex<double>((double)a, (double)b); } };
template <> struct c06v<amgcl::static_matrix<double,2,2> > { static const char* name() { return "block2x2"; }
    static std::shared_ptr<amgcl::backend::crs<amgcl::static_matrix<double,2,2> > > matrix(const gen::Csr &G, uint64_t) { typedef amgcl::static_matrix<double,2,2> BV; if (G.n % 2 || G.n < 2) return std::shared_ptr<amgcl::backend::crs<BV> >();
        gen::Csr Gc = G; auto As = to_crs(Gc); amgcl::backend::sort_rows(*As); return std::make_shared<amgcl::backend::crs<BV> >(amgcl::adapter::block_matrix<BV>(*As)); }
    static amgcl::static_matrix<double,2,1> rhs(long a, long b) { amgcl::static_matrix<double,2,1> r; r(0) = (double)a; r(1) = (double)b; return r; } };

template <class V, class M, class BP, class F> static typename std::enable_if<(amgcl::math::static_rows<V>::value == 1)>::type spai1_fixed_point(const M &A, const BP &bp, F &fp) { typedef amgcl::backend::builtin<V> VB; rx::spai1<VB> s(A, typename rx::spai1<VB>::params(), bp); fp(s); }
template <class V, class M, class BP, class F> static typename std::enable_if<(amgcl::math::static_rows<V>::value > 1)>::type spai1_fixed_point(const M &, const BP &, F &) {}

// complex SPAI-1: every row of M minimises ||e_i - m_i A|| over the pattern of row i of A: (M A - I) A^H vanishes on the pattern
template <class V, class M, class BP, class S> static typename std::enable_if<amgcl::is_complex<V>::value>::type spai1_normal_equations(const M &A, const BP &bp, long n, Result &res, S &sig) {
    if (n > 40) return; typedef amgcl::backend::builtin<V> VB; rx::spai1<VB> s(A, typename rx::spai1<VB>::params(), bp);
    Eigen::MatrixXcd Mm(n, n), D = Eigen::MatrixXcd::Zero(n, n); std::vector<V> e(n), x(n);
    for (long j = 0; j < n; ++j) { for (long i = 0; i < n; ++i) e[i] = V(0, 0); e[j] = V(1, 0); s.apply(A, e, x); for (long i = 0; i < n; ++i) Mm(i, j) = x[i]; }
    for (long i = 0; i < n; ++i) for (ptrdiff_t j = A.ptr[i]; j < A.ptr[i+1]; ++j) D(i, A.col[j]) += A.val[j];
    Eigen::MatrixXcd G = (Mm * D - Eigen::MatrixXcd::Identity(n, n)) * D.adjoint(); double sc = D.cwiseAbs().maxCoeff(); sc = sc * sc;
    for (long i = 0; i < n; ++i) for (ptrdiff_t j = A.ptr[i]; j < A.ptr[i+1]; ++j) if (!(std::abs(G(i, A.col[j])) <= 1e-9 * sc * (1 + Mm.row(i).cwiseAbs().maxCoeff()))) { res.fail(sig("definition", "valued least-squares-normal-equations", fmt("row %ld, pattern column %ld: gradient %.3g", i, (long)A.col[j], std::abs(G(i, A.col[j]))))); return; }
    res.counts["complex_spai1_normal_equations"]++; }
template <class V, class M, class BP, class S> static typename std::enable_if<!amgcl::is_complex<V>::value>::type spai1_normal_equations(const M &, const BP &, long, Result &, S &) {}

template <class V>
static void valued_smoothers(const Plan &p, Result &res) {
    namespace m = amgcl::math;
    typedef amgcl::backend::builtin<V> VB; typedef typename m::rhs_of<V>::type RV; typedef amgcl::backend::crs<V> VM;
    gen::Csr G = gen::make_matrix((int)p.get("family"), std::min<long>(p.get("n"), 80), (uint64_t)p.get("mseed"), (int)p.get("contrast"), 1);
    auto A = c06v<V>::matrix(G, (uint64_t)p.get("mseed")); if (!A) return;
    const long n = (long)A->nrows; int rl = (int)p.get("relax");
    sim::rng r((uint64_t)p.get("vseed"), "c06v");
    std::vector<RV> xs(n), f(n), x0(n), tmp(n);
    for (long i = 0; i < n; ++i) { xs[i] = c06v<V>::rhs((long)r.range(-8, 8), (long)r.range(-8, 8)); x0[i] = c06v<V>::rhs((long)r.range(-4, 4), (long)r.range(-4, 4)); }
    for (long i = 0; i < n; ++i) { RV t = m::zero<RV>(); for (ptrdiff_t j = A->ptr[i]; j < A->ptr[i+1]; ++j) t += A->val[j] * xs[A->col[j]]; f[i] = t; }
    auto dist = [&](const std::vector<RV> &a, const std::vector<RV> &b) { double d = 0; for (long i = 0; i < n; ++i) { RV e = a[i] - b[i]; d = std::max(d, (double)m::norm(e)); } return d; };
    auto vmax = [&](const std::vector<RV> &a) { double d = 0; for (long i = 0; i < n; ++i) d = std::max(d, (double)m::norm(a[i])); return d; };
    auto sig = [&](const char *oracle, const char *clause, const std::string &detail) { Violation v; v.oracle = oracle; v.add("component", relax_names[rl]); v.add("clause", clause); v.add("shape", c06v<V>::name()); v.detail = detail; return v; };
    typename VB::params bp; const double xscale = 1 + vmax(xs);
    auto fixed_point = [&](auto &R) { for (int pre = 0; pre < 2; ++pre) { std::vector<RV> x = xs; if (pre) R.apply_pre(*A, f, x, tmp); else R.apply_post(*A, f, x, tmp); double d = dist(x, xs); if (!(d <= 1e-9 * xscale)) res.fail(sig("fixed-point", "valued", fmt("%s-sweep moves the exact solution by %.3g", pre ? "pre" : "post", d))); } };
    auto diag = [&](long i) { V d = m::identity<V>(); for (ptrdiff_t j = A->ptr[i]; j < A->ptr[i+1]; ++j) if (A->col[j] == i) d = A->val[j]; return d; };
    switch (rl) {
    case R_JACOBI: { typedef rx::damped_jacobi<VB> R; typename R::params pr; pr.damping = (float)((double)p.get("damping16") / 16.0); R s(*A, pr, bp); fixed_point(s);
        std::vector<RV> x = x0; s.apply_pre(*A, f, x, tmp); std::vector<RV> want(n);
        for (long i = 0; i < n; ++i) { RV t = f[i]; for (ptrdiff_t j = A->ptr[i]; j < A->ptr[i+1]; ++j) t -= A->val[j] * x0[A->col[j]]; want[i] = x0[i] + (double)pr.damping * (m::inverse(diag(i)) * t); }
        double d = dist(x, want); if (!(d <= 1e-11 * (1 + vmax(want)))) res.fail(sig("definition", "valued x+omega*D^-1*(f-Ax)", fmt("difference from the definition %.3g", d))); break; }
    case R_GS: { typedef rx::gauss_seidel<VB> R; typename R::params ps, pp; ps.serial = true; pp.serial = false; R s(*A, ps, bp), q(*A, pp, bp); fixed_point(q);
        for (int pre = 1; pre >= 0; --pre) { std::vector<RV> a = x0, b = x0, w = x0; if (pre) { s.apply_pre(*A, f, a, tmp); q.apply_pre(*A, f, b, tmp); } else { s.apply_post(*A, f, a, tmp); q.apply_post(*A, f, b, tmp); }
            if (std::memcmp(a.data(), b.data(), sizeof(RV) * n) != 0) res.fail(sig("parallel-equals-serial", pre ? "valued forward" : "valued backward", fmt("nt=%ld: level-scheduled sweep differs from the serial one by %.3g", p.get("nt"), dist(a, b))));
            for (long k = 0; k < n; ++k) { long i = pre ? k : n - 1 - k; RV t = f[i]; for (ptrdiff_t j = A->ptr[i]; j < A->ptr[i+1]; ++j) if (A->col[j] != i) t -= A->val[j] * w[A->col[j]]; w[i] = m::inverse(diag(i)) * t; }
            double d = dist(a, w); if (!(d <= 1e-11 * (1 + vmax(w)))) res.fail(sig("definition", pre ? "valued forward-triangular-solve" : "valued backward-triangular-solve", fmt("difference from the definition %.3g", d))); }
        if (!q.is_serial) res.counts["gs_parallel_path"]++; break; }
    case R_SPAI0: { rx::spai0<VB> s(*A, typename rx::spai0<VB>::params(), bp); fixed_point(s); break; }
    case R_SPAI1: { spai1_fixed_point<V>(*A, bp, fixed_point); spai1_normal_equations<V>(*A, bp, n, res, sig); break; }      // (SPAI-1 is not available for block values)
    case R_CHEB: { typedef rx::chebyshev<VB> R; typename R::params pr; pr.degree = (unsigned)p.get("degree"); pr.scale = p.get("cheb_scale") != 0; R s(*A, pr, bp); fixed_point(s); break; }
    case R_ILU0: { typedef rx::ilu0<VB> R; typename R::params ps, pp; ps.solve.serial = true; pp.solve.serial = false; R s(*A, ps, bp), q(*A, pp, bp); fixed_point(q);
        std::vector<RV> a = x0, b = x0; s.apply_pre(*A, f, a, tmp); q.apply_pre(*A, f, b, tmp); double d = dist(a, b); if (!(d <= 1e-10 * (1 + vmax(a)))) res.fail(sig("parallel-equals-serial", "valued level-scheduled-triangular-solve", fmt("max difference %.3g", d))); break; }
    default: break;
    }
    res.counts[std::string("valued_smoothers_") + c06v<V>::name()]++;
}


// relaxation::as_preconditioner: apply() must be the smoother's apply() on a copy of the matrix it was given
template <template <class> class Relax, class P>
static void as_precond_check(const W &w, const P &prm, Result &res, const char *name, int shape) {
    typedef amgcl::relaxation::as_preconditioner<DBackend, Relax> AP;
    AP ap(*w.M, prm); Relax<DBackend> r(*w.M, prm, DBackend::params());
    std::vector<double> a(w.n), b(w.n);
    for (long i = 0; i < w.n; ++i) { a[i] = std::numeric_limits<double>::quiet_NaN(); b[i] = std::numeric_limits<double>::infinity(); }
    ap.apply(w.f, a); r.apply(*w.M, w.f, b);
    if (first_diff(a, b) != -1 || amgcl::backend::rows(ap.system_matrix()) != (size_t)w.n || crs_digest(ap.system_matrix()) != crs_digest(*w.M)) {
        Violation v; v.oracle = "apply-equals-sweep-from-zero"; v.add("component", name); v.add("clause", "as_preconditioner"); v.add("shape", shape == 0 ? "family" : shape == 1 ? "tridiagonal" : "arrow");
        v.detail = "as_preconditioner::apply differs from the smoother's apply(), or its system matrix is not the matrix it was constructed from"; res.fail(v); }
    res.counts["as_preconditioner_checked"]++;
}

Plan generate(uint64_t seed, uint64_t run, bool thorough) {
    sim::rng r(seed, "world", run);
    Plan p;
    int rl = (int)r.below(NRELAX);
    p.set("relax", rl, rl);
    int shape = r.chance(0.25) ? (int)r.range(1, 2) : 0;
    p.set("shape", shape, 0);
    static const int fams[] = { gen::F_GRAPH, gen::F_GRID2D, gen::F_NONSYM_PATTERN, gen::F_CONVDIFF, gen::F_GRID1D, gen::F_DISCONNECTED, gen::F_POSITIVE_OFFDIAG, gen::F_GRID3D };
    int fam = fams[r.below(8)]; p.set("family", fam, fam);
    double u = r.unit();
    p.set("n", u < 0.6 ? r.range(2, 36) : u < 0.9 ? r.range(20, 120) : r.range(100, thorough ? 1500 : 500), 2);
    p.set("mseed", (long)(r.next() >> 16), 0); p.set("vseed", (long)(r.next() >> 16), 0);
    p.set("contrast", r.range(0, 2), 0);
    p.set("k", r.range(0, 3), 0);
    p.set("kbig", r.chance(0.15) ? 1 : 0, 0);      // ILU(k >= n)
    p.set("damping16", r.chance(0.5) ? 16 : r.range(8, 20), 8);
    p.set("degree", r.range(1, 6), 1); p.set("power_iters", r.chance(0.3) ? r.range(3, 10) : 0, 0); p.set("cheb_scale", r.range(0, 1), 0); p.set("ilut_p", r.range(0, 6), 0); p.set("ilut_tau", r.range(0, 3), 0); p.set("cheb_hi", r.range(0, 3), 0); p.set("cheb_lo", r.range(0, 3), 0);
    p.set("unsorted", r.chance(0.3) ? 1 : 0, 0);     // rows stored diagonal-first (smoothers that do not document sorted rows)
    p.set("block", r.chance(0.2) ? 1 : 0, 0);        // block-valued ILU exactness instead of the scalar worlds
    p.set("nt", r.chance(0.25) ? draw_nt(r, 1, 3) : draw_nt(r, 4, 32), 1);
    p.set("valued", r.chance(0.12) ? r.range(1, 2) : 0, 0);      // complex / 2x2 block valued smoothers (Jacobi, GS, SPAI-0/1, Chebyshev, ILU(0))
    draw_schedule(r, p.sched, (int)p.get("nt"));
    return p;
}

Result execute(const Plan &p) {
    Result res;
    int rl = (int)p.get("relax"), nt = (int)p.get("nt"), shape = (int)p.get("shape");
    W w;
    w.A = shape == 0 ? gen::make_matrix((int)p.get("family"), p.get("n"), (uint64_t)p.get("mseed"), (int)p.get("contrast"), 1) : special_matrix(shape, std::min<long>(p.get("n"), 60), (uint64_t)p.get("mseed"));
    w.n = w.A.n; const long n = w.n;
    w.xs = gen::make_vector(n, (uint64_t)p.get("vseed"), 1); w.x0 = gen::make_vector(n, (uint64_t)p.get("vseed") + 1, 0);
    w.f.assign(n, 0.0); for (long i = 0; i < n; ++i) { long double t = 0; for (ptrdiff_t j = w.A.ptr[i]; j < w.A.ptr[i+1]; ++j) t += (long double)w.A.val[j] * w.xs[w.A.col[j]]; w.f[i] = (double)t; }
    double damping = (double)p.get("damping16") / 16.0;
    long k = p.get("kbig") ? n + 1 : p.get("k");
    auto sig = [&](const char *oracle, const char *clause, const std::string &detail) { Violation v; v.oracle = oracle; v.add("component", relax_names[rl]); v.add("clause", clause); v.add("shape", shape == 0 ? "family" : shape == 1 ? "tridiagonal" : "arrow"); v.detail = detail; return v; };
    double amax = 0; for (size_t j = 0; j < w.A.val.size(); ++j) amax = std::max(amax, std::fabs(w.A.val[j]));
    const double xscale = 1 + max_abs(w.xs);

    auto body = [&](std::vector<std::vector<double> > *outs) {
        w.M = to_crs(w.A); amgcl::backend::sort_rows(*w.M);
        if (p.get("unsorted") && (rl == R_JACOBI || rl == R_GS || rl == R_SPAI0 || rl == R_CHEB)) {
            // the same matrix with every row stored diagonal-first
            DMatrix &M = *w.M;
            for (long i = 0; i < n; ++i) for (ptrdiff_t j = M.ptr[i]; j < M.ptr[i+1]; ++j) if (M.col[j] == i) { for (ptrdiff_t q = j; q > M.ptr[i]; --q) { std::swap(M.col[q], M.col[q-1]); std::swap(M.val[q], M.val[q-1]); } break; }
            res.counts["unsorted_rows_worlds"]++;
        }
        DBackend::params bp;
        auto fixed_point = [&](auto &R, const char *which) {
            for (int pre = 0; pre < 2; ++pre) { std::vector<double> x = w.xs; sweep(R, w, x, pre, 0); double d = max_abs_diff(x, w.xs); if (!(d <= 1e-9 * xscale)) res.fail(sig("fixed-point", which, fmt("%s-sweep moves the exact solution by %.3g", pre ? "pre" : "post", d))); }
        };
        // pre- and post-sweep are the same map for every smoother except Gauss-Seidel (forward / backward)
        auto pre_equals_post = [&](auto &R, const char *which) {
            std::vector<double> a = w.x0, b = w.x0; sweep(R, w, a, true, 0); sweep(R, w, b, false, 0);
            if (first_diff(a, b) != -1) { long d = first_diff(a, b); res.fail(sig("pre-equals-post", which, fmt("pre- and post-sweep from the same x differ at %ld: %.17g vs %.17g", d, d >= 0 ? a[d] : 0.0, d >= 0 ? b[d] : 0.0))); }
            if (max_abs_diff(a, w.x0) == 0 && max_abs_diff(w.x0, w.xs) > 0) res.fail(sig("pre-equals-post", which, "the sweep leaves a wrong x untouched"));
        };
        auto record = [&](auto &R) { if (outs) { std::vector<double> x = w.x0; sweep(R, w, x, true, 0); sweep(R, w, x, false, 0); outs->push_back(x); } };
        // (LU)_ij = a_ij on the pattern of A; optionally everywhere
        // apply() (the smoother used as a stand-alone preconditioner) is consistent with the sweeps: it overwrites x with
        // M^-1 f, i.e. one pre-sweep from x = 0 (Gauss-Seidel: forward then backward sweep; the ILU family: without the damping)
        auto apply_check = [&](auto &R, int mode, const char *which) {
            std::vector<double> xa(n), xz(n, 0.0), tmp(n);
            for (long i = 0; i < n; ++i) xa[i] = (i % 2) ? std::numeric_limits<double>::quiet_NaN() : std::numeric_limits<double>::infinity();
            R.apply(*w.M, w.f, xa);
            R.apply_pre(*w.M, w.f, xz, tmp); if (mode == 1) R.apply_post(*w.M, w.f, xz, tmp);
            if (mode == 2) for (long i = 0; i < n; ++i) xa[i] *= (double)(float)damping;
            double d = max_abs_diff(xa, xz);
            if (!(d <= 1e-11 * (1 + max_abs(xz)))) res.fail(sig("apply-equals-sweep-from-zero", which, fmt("apply() differs from the sweep(s) started at x = 0 by %.3g (scale %.3g)", d, max_abs(xz))));
            res.counts["apply_consistency_checked"]++;
        };
        auto lu_identity = [&](auto &R, bool everywhere, const char *clause, const std::vector<char> *mask = 0) {
            if (n > 40) return;
            Eigen::MatrixXd B = extract(R, w, true), I = Eigen::MatrixXd::Identity(n, n);
            Eigen::FullPivLU<Eigen::MatrixXd> lu(B); if (!lu.isInvertible()) { res.fail(sig("ilu-pattern-identity", clause, "extracted M^-1 is singular")); return; }
            Eigen::MatrixXd LU = lu.inverse() * damping, D = edense(w.A);
            double tol = 1e-8 * amax * std::max(1.0, 1.0 / lu.rcond() * 1e-8);
            if (everywhere) { double d = (LU - D).cwiseAbs().maxCoeff(); if (!(d <= tol)) res.fail(sig("ilu-exact-when-factors-fit", clause, fmt("max |LU - A| = %.3g (tol %.3g)", d, tol))); return; }
            if (mask) { for (long i = 0; i < n; ++i) for (long j = 0; j < n; ++j) if ((*mask)[(size_t)i * n + j]) { double d = std::fabs(LU(i, j) - D(i, j)); if (!(d <= tol)) { res.fail(sig("ilu-pattern-identity", clause, fmt("(LU)(%ld,%ld) = %.17g, a = %.17g", i, j, LU(i, j), D(i, j)))); return; } }
                res.counts["lu_identities_checked_on_power_pattern"]++; return; }
            for (long i = 0; i < n; ++i) for (ptrdiff_t j = w.A.ptr[i]; j < w.A.ptr[i+1]; ++j) { double d = std::fabs(LU(i, w.A.col[j]) - D(i, w.A.col[j])); if (!(d <= tol)) { res.fail(sig("ilu-pattern-identity", clause, fmt("(LU)(%ld,%ld) = %.17g, a = %.17g", i, (long)w.A.col[j], LU(i, w.A.col[j]), D(i, w.A.col[j])))); return; } }
            res.counts["lu_identities_checked"]++;
        };
        // ILUP is ILU(0) on the symbolic pattern of A^(k+1): (LU)_ij = a_ij (zero outside pattern(A)) on that whole pattern
        auto ilup_power_pattern = [&](auto &rs) {
            if (n > 40) return;
            std::vector<char> S((size_t)n * n, 0); for (long i = 0; i < n; ++i) for (ptrdiff_t j = w.A.ptr[i]; j < w.A.ptr[i+1]; ++j) S[(size_t)i * n + w.A.col[j]] = 1;
            std::vector<char> Pk = S;
            for (long q = 0; q < std::min<long>(k, 3); ++q) { std::vector<char> N((size_t)n * n, 0); for (long i = 0; i < n; ++i) for (long l = 0; l < n; ++l) if (Pk[(size_t)i * n + l]) for (long j = 0; j < n; ++j) if (S[(size_t)l * n + j]) N[(size_t)i * n + j] = 1; Pk.swap(N); }
            lu_identity(rs, false, "pattern-of-A^(k+1)", &Pk);
        };
        // ILU(k) against the reference factorisation (levels by the library's max rule): same factors, hence the same level-k pattern
        auto iluk_reference = [&](auto &rs) {
            if (n > 40 || k > 6) return;
            RefIluk ref = ref_iluk(w.A, (int)k);
            if (ref.breakdown) return;
            if (ref.late) { res.counts["iluk_late_admission_worlds_skipped"]++; return; }
            Eigen::MatrixXd B = extract(rs, w, true); Eigen::FullPivLU<Eigen::MatrixXd> lu(B); if (!lu.isInvertible()) { res.fail(sig("ilu-level-of-fill-reference", "singular", "extracted M^-1 is singular")); return; }
            Eigen::MatrixXd LU = lu.inverse() * damping; double tol = 1e-8 * amax * std::max(1.0, 1.0 / lu.rcond() * 1e-8);
            double worst = 0; long wi = 0, wj = 0; for (long i = 0; i < n; ++i) for (long j = 0; j < n; ++j) { double d = std::fabs(LU(i, j) - ref.LU(i, j)); if (d > worst) { worst = d; wi = i; wj = j; } }
            if (!(worst <= tol)) res.fail(sig("ilu-level-of-fill-reference", "factors-equal-reference-ILU(k)", fmt("k=%ld: (LU)(%ld,%ld) = %.17g, reference ILU(k) gives %.17g (%ld fill entries, %ld level updates of admitted entries)", k, wi, wj, LU(wi, wj), ref.LU(wi, wj), ref.fill, ref.lowered)));
            res.counts["iluk_reference_checked"]++; if (ref.lowered) res.counts["iluk_reference_with_lowered_levels"]++; if (ref.fill) res.counts["iluk_reference_with_fill"]++;
        };
        auto ilut_reference = [&](auto &rs, double pfill, double tau) {
            if (n > 40) return;
            RefIlut ref = ref_ilut(w.A, pfill, tau);
            if (ref.breakdown) return;
            if (ref.ambiguous) { res.counts["ilut_ambiguous_worlds_skipped"]++; return; }
            Eigen::MatrixXd B = extract(rs, w, true); Eigen::FullPivLU<Eigen::MatrixXd> lu(B); if (!lu.isInvertible()) { res.fail(sig("ilut-dual-threshold-reference", "singular", "extracted M^-1 is singular")); return; }
            Eigen::MatrixXd LU = lu.inverse() * damping; double tol = 1e-8 * amax * std::max(1.0, 1.0 / lu.rcond() * 1e-8);
            double worst = 0; long wi = 0, wj = 0; for (long i = 0; i < n; ++i) for (long j = 0; j < n; ++j) { double d = std::fabs(LU(i, j) - ref.LU(i, j)); if (d > worst) { worst = d; wi = i; wj = j; } }
            if (!(worst <= tol)) res.fail(sig("ilut-dual-threshold-reference", "factors-equal-reference-ILUT", fmt("p=%g tau=%g: (LU)(%ld,%ld) = %.17g, reference ILUT gives %.17g (%ld entries dropped, %ld fill positions)", pfill, tau, wi, wj, LU(wi, wj), ref.LU(wi, wj), ref.dropped, ref.fill)));
            res.counts["ilut_reference_checked"]++; if (ref.dropped) res.counts["ilut_reference_with_dropping"]++;
        };
        bool exact_shape = shape != 0;
        switch (rl) {
        case R_JACOBI: { typedef rx::damped_jacobi<DBackend> R; R::params pr; pr.damping = (float)damping; R r(*w.M, pr, bp); fixed_point(r, "damped_jacobi"); record(r); apply_check(r, 2, "damped_jacobi"); pre_equals_post(r, "damped_jacobi"); as_precond_check<rx::damped_jacobi>(w, pr, res, "damped_jacobi", shape);
            std::vector<double> x = w.x0; sweep(r, w, x, true, 0);
            for (long i = 0; i < n; ++i) { long double t = w.f[i], d = 1; for (ptrdiff_t j = w.A.ptr[i]; j < w.A.ptr[i+1]; ++j) { t -= (long double)w.A.val[j] * w.x0[w.A.col[j]]; if (w.A.col[j] == i) d = w.A.val[j]; }
                double want = (double)(w.x0[i] + (long double)(double)pr.damping / d * t); if (!(std::fabs(x[i] - want) <= 1e-12 * (1 + std::fabs(want)))) { res.fail(sig("definition", "x+omega*D^-1*(f-Ax)", fmt("row %ld: %.17g, definition %.17g", i, x[i], want))); break; } }
            break; }
        case R_GS: { typedef rx::gauss_seidel<DBackend> R; R::params ps, pp; ps.serial = true; pp.serial = false; R rs(*w.M, ps, bp), rp(*w.M, pp, bp); fixed_point(rp, "gauss_seidel"); record(rp); apply_check(rp, 1, "gauss_seidel"); apply_check(rs, 1, "gauss_seidel-serial"); as_precond_check<rx::gauss_seidel>(w, pp, res, "gauss_seidel", shape);
            for (int pre = 1; pre >= 0; --pre) {
                std::vector<double> xs = w.x0, xp = w.x0, xr = w.x0; sweep(rs, w, xs, pre, 0); sweep(rp, w, xp, pre, 0);
                if (first_diff(xs, xp) != -1) { long d = first_diff(xs, xp); res.fail(sig("parallel-equals-serial", pre ? "forward" : "backward", fmt("nt=%d row %ld: serial %.17g level-scheduled %.17g", nt, d, xs[d], xp[d]))); }
                // definition: forward (pre) / backward (post) triangular solve
                for (long q = 0; q < n; ++q) { long i = pre ? q : n - 1 - q; long double t = w.f[i], d = 1; for (ptrdiff_t j = w.A.ptr[i]; j < w.A.ptr[i+1]; ++j) { if (w.A.col[j] == i) d = w.A.val[j]; else t -= (long double)w.A.val[j] * xr[w.A.col[j]]; } xr[i] = (double)(t / d); }
                double d = max_abs_diff(xs, xr); if (!(d <= 1e-11 * (1 + max_abs(xr)))) res.fail(sig("definition", pre ? "forward-triangular-solve" : "backward-triangular-solve", fmt("max difference from the definition %.3g", d)));
            }
            if (!rp.is_serial) res.counts["gs_parallel_path"]++;
            break; }
        case R_SPAI0: { typedef rx::spai0<DBackend> R; R r(*w.M, R::params(), bp); fixed_point(r, "spai0"); record(r); apply_check(r, 0, "spai0"); pre_equals_post(r, "spai0"); as_precond_check<rx::spai0>(w, R::params(), res, "spai0", shape);
            std::vector<double> x = w.x0; sweep(r, w, x, true, 0);
            for (long i = 0; i < n; ++i) { long double t = w.f[i], num = 0, den = 0; for (ptrdiff_t j = w.A.ptr[i]; j < w.A.ptr[i+1]; ++j) { t -= (long double)w.A.val[j] * w.x0[w.A.col[j]]; den += (long double)w.A.val[j] * w.A.val[j]; if (w.A.col[j] == i) num += w.A.val[j]; }
                double want = (double)(w.x0[i] + num / den * t); if (!(std::fabs(x[i] - want) <= 1e-12 * (1 + std::fabs(want)))) { res.fail(sig("definition", "row-wise-least-squares-diagonal", fmt("row %ld: %.17g, definition %.17g", i, x[i], want))); break; } }
            break; }
        case R_SPAI1: { typedef rx::spai1<DBackend> R; R r(*w.M, R::params(), bp); fixed_point(r, "spai1"); record(r); apply_check(r, 0, "spai1"); pre_equals_post(r, "spai1"); as_precond_check<rx::spai1>(w, R::params(), res, "spai1", shape);
            if (n <= 40) { Eigen::MatrixXd M = extract(r, w, true), D = edense(w.A), G = (M * D - Eigen::MatrixXd::Identity(n, n)) * D.transpose();
                double sc = D.cwiseAbs().maxCoeff(); sc = sc * sc;
                for (long i = 0; i < n; ++i) for (ptrdiff_t j = w.A.ptr[i]; j < w.A.ptr[i+1]; ++j) if (!(std::fabs(G(i, w.A.col[j])) <= 1e-9 * sc * (1 + M.row(i).cwiseAbs().maxCoeff()))) { res.fail(sig("definition", "least-squares-normal-equations", fmt("row %ld, pattern column %ld: gradient %.3g", i, (long)w.A.col[j], G(i, w.A.col[j])))); i = n; break; }
                // M is supported on the pattern of A
                Eigen::MatrixXd P = Eigen::MatrixXd::Zero(n, n); for (long i = 0; i < n; ++i) for (ptrdiff_t j = w.A.ptr[i]; j < w.A.ptr[i+1]; ++j) P(i, w.A.col[j]) = 1;
                for (long i = 0; i < n; ++i) for (long j = 0; j < n; ++j) if (P(i, j) == 0 && M(i, j) != 0) { res.fail(sig("definition", "spai1-pattern", fmt("M(%ld,%ld) = %.3g outside the pattern of A", i, j, M(i, j)))); i = n; break; } }
            break; }
        case R_CHEB: { typedef rx::chebyshev<DBackend> R; R::params pr; pr.degree = (unsigned)p.get("degree"); pr.power_iters = (int)p.get("power_iters"); pr.scale = p.get("cheb_scale") != 0;
            { static const float hs[] = { 1.0f, 1.0f, 1.1f, 1.25f }, ls[] = { 1.0f / 30, 1.0f / 30, 0.1f, 0.25f }; pr.higher = hs[p.get("cheb_hi") % 4]; pr.lower = ls[p.get("cheb_lo") % 4]; }
            R r(*w.M, pr, bp); fixed_point(r, "chebyshev"); record(r); apply_check(r, 0, "chebyshev"); pre_equals_post(r, "chebyshev");
            // definition: after the sweep the error is q(A') e with q(t) = T_d((d - t)/c) / T_d(d/c), A' = A or D^-1 A, [lo, hi] from the
            // Gershgorin bound (power_iters = 0): evaluated with the matrix Chebyshev recurrence on a dense copy
            if (pr.power_iters == 0 && n <= 48) {
                Eigen::MatrixXd D = edense(w.A), Ap = D; double hi = 0;
                for (long i = 0; i < n; ++i) { double s = 0, dia = 1; for (long j = 0; j < n; ++j) { s += std::fabs(D(i, j)); } dia = D(i, i); if (pr.scale) { Ap.row(i) /= dia; s *= std::fabs(1 / dia); } hi = std::max(hi, s); }
                double lo = hi * pr.lower; hi *= pr.higher; double dd = 0.5 * (hi + lo), cc = 0.5 * (hi - lo);
                Eigen::MatrixXd Z = (dd * Eigen::MatrixXd::Identity(n, n) - Ap) / cc, T0 = Eigen::MatrixXd::Identity(n, n), T1 = Z; double t0 = 1, t1 = dd / cc;
                for (unsigned k = 1; k < pr.degree; ++k) { Eigen::MatrixXd T2 = 2 * Z * T1 - T0; T0 = T1; T1 = T2; double t2 = 2 * (dd / cc) * t1 - t0; t0 = t1; t1 = t2; }
                Eigen::MatrixXd Q = T1 / t1;
                std::vector<double> xo = w.x0; sweep(r, w, xo, true, 0);
                Eigen::VectorXd e0(n), e1(n); for (long i = 0; i < n; ++i) { e0[i] = w.x0[i] - w.xs[i]; e1[i] = xo[i] - w.xs[i]; }
                Eigen::VectorXd want = Q * e0; double dv = (e1 - want).cwiseAbs().maxCoeff(), sc = Q.cwiseAbs().rowwise().sum().maxCoeff() * e0.cwiseAbs().maxCoeff() + xscale;
                if (!(dv <= 1e-9 * sc)) res.fail(sig("definition", "chebyshev-polynomial-of-degree-d", fmt("degree %u, [lo, hi] = [%.6g, %.6g]%s: error after the sweep differs from q(A) e by %.3g (scale %.3g)", pr.degree, lo, hi, pr.scale ? " scaled" : "", dv, sc)));
                res.counts["chebyshev_polynomial_checked"]++;
            }
            // the sweep is affine in x: S(x) - x* = Q (x - x*) for a fixed matrix Q, so S((x0+x*)/2) is the midpoint of S(x0) and x*
            std::vector<double> a = w.x0, m(n); sweep(r, w, a, true, 0); for (long i = 0; i < n; ++i) m[i] = 0.5 * (w.x0[i] + w.xs[i]); sweep(r, w, m, true, 0);
            double worst = 0, sc = 1 + max_abs(a); for (long i = 0; i < n; ++i) worst = std::max(worst, std::fabs(m[i] - 0.5 * (a[i] + w.xs[i])));
            if (!(worst <= 1e-9 * sc)) res.fail(sig("definition", "polynomial-in-A", fmt("sweep is not affine about the exact solution: deviation %.3g", worst)));
            break; }
        #define ILU_BLOCK(T, SETUP, PATTERN_OK, EXACT_OK, EXTRA) { typedef rx::T<DBackend> R; R::params ps, pp; SETUP; ps.damping = pp.damping = (float)damping; ps.solve.serial = true; pp.solve.serial = false; \
            R rs(*w.M, ps, bp), rp(*w.M, pp, bp); fixed_point(rp, #T); record(rp); \
            std::vector<double> xs = w.x0, xp = w.x0; sweep(rs, w, xs, true, 0); sweep(rp, w, xp, true, 0); \
            { double d = max_abs_diff(xs, xp); if (!(d <= 1e-10 * (1 + max_abs(xs)))) res.fail(sig("parallel-equals-serial", "level-scheduled-triangular-solve", fmt("nt=%d: max difference %.3g", nt, d))); } \
            res.counts["ilu_parallel_path"]++; damping = (double)(float)damping; \
            apply_check(rs, 2, #T "-serial"); apply_check(rp, 2, #T); pre_equals_post(rs, #T "-serial"); pre_equals_post(rp, #T); as_precond_check<rx::T>(w, pp, res, #T, shape); \
            if (PATTERN_OK) lu_identity(rs, false, "pattern-of-A"); if (EXACT_OK) lu_identity(rs, true, "exact-factors-fit"); EXTRA; }
        case R_ILU0: ILU_BLOCK(ilu0, (void)0, true, exact_shape, (void)0) break;
        case R_ILUK: ILU_BLOCK(iluk, ps.k = pp.k = (int)k, true, exact_shape || k > n, iluk_reference(rs)) break;
        case R_ILUP: ILU_BLOCK(ilup, ps.k = pp.k = (int)std::min<long>(k, 3), true, exact_shape, ilup_power_pattern(rs)) break;
        default:     { static const double pf[] = { 2.0, 1.0, 1.5, 2.5, 3.0, 1.25 }, tf[] = { 0.01, 0.0, 0.001, 0.1 }; double pfill = exact_shape ? 1000.0 : (p.get("ilut_p") ? pf[p.get("ilut_p") % 6] : 2.0 + (double)k), tauv = exact_shape ? 0.0 : tf[p.get("ilut_tau") % 4];
                     ILU_BLOCK(ilut, ps.p = pp.p = pfill; ps.tau = pp.tau = tauv, false, exact_shape, ilut_reference(rs, pfill, tauv)) } break;
        }
    };

    if (p.get("valued", 0) && rl <= R_ILU0) {
        sim::RunStatus sv = world(nt, p.sched, [&]() { try { if (p.get("valued") == 1) valued_smoothers<std::complex<double> >(p, res); else valued_smoothers<amgcl::static_matrix<double,2,2> >(p, res); }
            catch (const std::exception &e) { Violation v; v.oracle = "no-exception"; v.add("component", relax_names[rl]); v.add("clause", "valued-threw"); v.detail = e.what(); res.fail(v); } });
        res.absorb(sv); res.deviations = sv.deviations; res.nontrivial = true;
        res.key = sim::hash_combine((uint64_t)p.get("mseed"), (uint64_t)(rl * 91 + p.get("n") * 5 + p.get("valued") * 100003 + 1000 * nt)); res.key = sim::hash_combine(res.key, (uint64_t)p.get("vseed"));
        js::Value s = js::Value::object(); s.set("relaxation", relax_names[rl]); s.set("values", p.get("valued") == 1 ? "complex" : "2x2 blocks through the block adapter"); s.set("family", gen::family_name((int)p.get("family"))); s.set("n", std::min<long>(p.get("n"), 80)); s.set("nt", nt); res.sample = s;
        return res;
    }
    if (p.get("block") && rl >= R_ILU0) {
        sim::RunStatus sb = world(nt, p.sched, [&]() { try {
            switch (rl) {
                case R_ILU0: block_ilu_exact<rx::ilu0>(p, res, "ilu0", [&](auto &pr) { (void)pr; }); break;
                case R_ILUK: block_ilu_exact<rx::iluk>(p, res, "iluk", [&](auto &pr) { pr.k = (int)p.get("k"); }); break;
                case R_ILUP: block_ilu_exact<rx::ilup>(p, res, "ilup", [&](auto &pr) { pr.k = (int)std::min<long>(p.get("k"), 3); }); break;
                default:     block_ilu_exact<rx::ilut>(p, res, "ilut", [&](auto &pr) { pr.p = 1000; pr.tau = 0; }); break;
            } } catch (const std::exception &e) { res.fail(sig("no-exception", "threw", e.what())); } });
        res.absorb(sb); res.deviations = sb.deviations;
        res.nontrivial = true; res.key = sim::hash_combine((uint64_t)p.get("mseed"), (uint64_t)(rl * 77 + p.get("n") * 3 + p.get("shape") + 1000 * nt));
        js::Value s = js::Value::object(); s.set("relaxation", relax_names[rl]); s.set("matrix", "block 2x2 tridiagonal/arrow"); s.set("n_blocks", std::min<long>(std::max<long>(p.get("n"), 2), 30)); s.set("nt", nt); res.sample = s;
        return res;
    }
    std::vector<std::vector<double> > out1, out2;
    sim::RunStatus s1 = world(nt, p.sched, [&]() { try { body(&out1); } catch (const std::exception &e) { res.fail(sig("no-exception", "threw", e.what())); } });
    size_t nviol = res.v.size();
    sim::SchedConfig alt = canonical(); alt.strategy = (p.sched.strategy == sim::REVERSE) ? sim::CANONICAL : sim::REVERSE;
    Result scratch; std::swap(scratch, res);
    sim::RunStatus s2 = world(nt, alt, [&]() { try { body(&out2); } catch (const std::exception &e) { res.fail(sig("no-exception", "threw", e.what())); } });
    std::swap(scratch, res); (void)nviol;
    res.absorb(s1); res.absorb(s2); res.deviations = s1.deviations;
    if (s1.status || s2.status) res.fail(sig("world-terminates", "deadlock-or-budget", s1.blocked + s2.blocked));
    // every schedule yields the same sweep (chebyshev with power iterations has an unordered critical accumulation)
    if (out1.size() == out2.size()) for (size_t i = 0; i < out1.size(); ++i) {
        bool loose = rl == R_CHEB && p.get("power_iters") > 0;
        if (loose ? !(max_abs_diff(out1[i], out2[i]) <= 1e-9 * (1 + max_abs(out1[i]))) : first_diff(out1[i], out2[i]) != -1) res.fail(sig("schedule-independent", "two-schedules", fmt("nt=%d: sweep result differs between two schedules", nt)));
    }
    for (size_t i = 0; i < out1.size(); ++i) res.hash = sim::hash_combine(res.hash, vec_digest(out1[i]));
    res.counts[std::string("relax_") + relax_names[rl]]++;
    res.nontrivial = n >= 3;
    res.key = sim::hash_combine(gen::digest(w.A), (uint64_t)(rl * 100003 + nt * 101 + k * 7 + p.get("damping16"))); res.key = sim::hash_combine(res.key, (uint64_t)p.get("vseed") ^ (uint64_t)p.get("degree"));
    js::Value s = js::Value::object();
    s.set("relaxation", relax_names[rl]); s.set("matrix", shape == 0 ? gen::family_name((int)p.get("family")) : shape == 1 ? "tridiagonal" : "arrow"); s.set("n", n); s.set("nt", nt); s.set("k", k);
    s.set("damping", damping); s.set("strategy", sim::strategy_name(p.sched.strategy)); s.set("pattern_symmetric", gen::pattern_symmetric(w.A)); s.set("deviations_taken", (long)s1.deviations.size());
    res.sample = s;
    return res;
}
