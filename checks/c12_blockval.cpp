// C12, block value types: the distributed AMG on a system of 2x2 blocks (static_matrix values, block right-hand sides).
// World: a symmetric positive definite block system whose off-diagonal blocks do not commute (per-edge rotated
// anisotropy tensors on the graph of a generated M-matrix), R simulated ranks, compile-time policies
// (aggregation | smoothed_aggregation) x (spai0 | ilu0), BiCGStab, skyline_lu on the coarsest level, merge repartitioning.
// Oracles: termination, rank agreement, truthful residual (block system, long double), R = P^H, A_c = R*A*P in blocks,
// plain aggregation: one identity block per aggregated row, no empty aggregate.
#include "c12.hpp"
#include "../sim/mpi.hpp"
#include <amgcl/value_type/static_matrix.hpp>
#include <amgcl/mpi/util.hpp>
#include <amgcl/mpi/distributed_matrix.hpp>
#include <amgcl/mpi/make_solver.hpp>
#include <amgcl/mpi/amg.hpp>
#include <amgcl/mpi/coarsening/aggregation.hpp>
#include <amgcl/mpi/coarsening/smoothed_aggregation.hpp>
#include <amgcl/mpi/relaxation/spai0.hpp>
#include <amgcl/mpi/relaxation/ilu0.hpp>
#include <amgcl/mpi/solver/bicgstab.hpp>
#include <amgcl/mpi/direct_solver/skyline_lu.hpp>
#include <amgcl/mpi/partition/merge.hpp>
#include <map>
#include <set>

using namespace cm;
using hz::Plan; using hz::Result; using hz::Violation;

namespace {
typedef amgcl::static_matrix<double,2,2> BV;
typedef amgcl::static_matrix<double,2,1> RV;
typedef amgcl::backend::builtin<BV> BBk;
typedef amgcl::mpi::distributed_matrix<BBk> DMB;
typedef std::map<std::pair<long,long>, double> Entries;
struct LevelRec { Entries A, P, R, Ac; long nA = 0, nC = 0; int calls = 0; double scale = 1; };
std::vector<LevelRec> g_levels;
std::vector<int> g_rank_level;

// scalar expansion of a distributed block strip: block (i,c) -> entries (2i+a, 2c+b)
void add_strip(Entries &e, const DMB &dm, long row0) {
    const auto &loc = *dm.local(); const auto &rem = *dm.remote(); long col0 = dm.loc_col_shift();
    for (size_t i = 0; i < loc.nrows; ++i) {
        for (ptrdiff_t j = loc.ptr[i]; j < loc.ptr[i+1]; ++j) for (int a = 0; a < 2; ++a) for (int b = 0; b < 2; ++b) e[std::make_pair(2 * (row0 + (long)i) + a, 2 * (col0 + (long)loc.col[j]) + b)] += loc.val[j](a, b);
        for (ptrdiff_t j = rem.ptr[i]; j < rem.ptr[i+1]; ++j) for (int a = 0; a < 2; ++a) for (int b = 0; b < 2; ++b) e[std::make_pair(2 * (row0 + (long)i) + a, 2 * (long)rem.col[j] + b)] += rem.val[j](a, b);
    }
}
template <class Base, bool Plain>
struct rec_coarsening : Base {
    typedef typename Base::params params;
    float over_interp;
    rec_coarsening(const params &prm = params()) : Base(prm), over_interp(get_oi(prm, std::integral_constant<bool, Plain>())) {}
    static float get_oi(const params &prm, std::true_type) { return prm.over_interp; }
    static float get_oi(const params &, std::false_type) { return 1.0f; }
    std::shared_ptr<DMB> coarse_operator(const DMB &A, const DMB &P, const DMB &R) const {
        std::shared_ptr<DMB> Ac = Base::coarse_operator(A, P, R);
        int rank = simmpi::world_rank();
        size_t lvl = (size_t)g_rank_level[rank]++;
        if (g_levels.size() <= lvl) g_levels.resize(lvl + 1);
        LevelRec &L = g_levels[lvl];
        add_strip(L.A, A, A.loc_col_shift()); add_strip(L.P, P, A.loc_col_shift()); add_strip(L.R, R, P.loc_col_shift()); add_strip(L.Ac, *Ac, Ac->loc_col_shift());
        L.nA = 2 * A.glob_rows(); L.nC = 2 * P.glob_cols(); ++L.calls; L.scale = Plain ? (double)(1.0f / over_interp) : 1.0;
        return Ac;
    }
};
template <class Base, bool Plain> unsigned block_size(const rec_coarsening<Base, Plain> &c) { return c.prm.aggr.block_size; }

struct BlockSystem { long nb; std::vector<ptrdiff_t> ptr, col; std::vector<BV> val; };

template <class Coarsening, class Relax>
void rank_body(int rank, const BlockSystem &A, const std::vector<long> &rp, const boost::property_tree::ptree &prm, const std::vector<double> &f,
               std::vector<double> &x, std::vector<double> &iters, std::vector<double> &resid) {
    typedef amgcl::mpi::make_solver<
        amgcl::mpi::amg<BBk, Coarsening, Relax, amgcl::mpi::direct::skyline_lu<BV>, amgcl::mpi::partition::merge<BBk> >,
        amgcl::mpi::solver::bicgstab<BBk> > Solver;
    amgcl::mpi::communicator comm(MPI_COMM_WORLD);
    long r0 = rp[rank], r1 = rp[rank+1];
    std::vector<ptrdiff_t> ptr(1, 0), col; std::vector<BV> val;
    for (long i = r0; i < r1; ++i) { for (ptrdiff_t j = A.ptr[i]; j < A.ptr[i+1]; ++j) { col.push_back(A.col[j]); val.push_back(A.val[j]); } ptr.push_back((ptrdiff_t)col.size()); }
    auto dA = std::make_shared<DMB>(comm, std::make_tuple((size_t)(r1 - r0), std::ref(ptr), std::ref(col), std::ref(val)));
    Solver solve(comm, dA, prm);
    std::vector<RV> fl(r1 - r0), xl(r1 - r0, amgcl::math::zero<RV>());
    for (long i = r0; i < r1; ++i) { fl[i - r0](0) = f[2 * i]; fl[i - r0](1) = f[2 * i + 1]; }
    size_t it; double rs; std::tie(it, rs) = solve(fl, xl);
    iters[rank] = (double)it; resid[rank] = rs;
    for (long i = r0; i < r1; ++i) { x[2 * i] = xl[i - r0](0); x[2 * i + 1] = xl[i - r0](1); }
}
}

namespace c12 {
void blockval_world(const Plan &p, Result &res) {
    static const char *coarsening_names[] = { "aggregation", "smoothed_aggregation" };
    static const char *relax_names[] = { "spai0", "ilu0" };
    int R = (int)p.get("R");
    gen::Csr S = gen::make_matrix((int)p.get("family"), std::max<long>(4, std::min<long>(p.get("n"), 200) / 2), (uint64_t)p.get("mseed"), (int)p.get("contrast"), 1);
    const long nb = S.n;
    const long coarsening = p.get("coarsening") & 1, relax = p.get("relax") & 1;
    sim::rng pr((uint64_t)p.get("pseed"), "partition"), br((uint64_t)p.get("mseed"), "block-tensors");
    std::vector<long> rp = draw_partition(pr, nb, R, p.get("allow_empty") != 0 || nb < R);
    // block system: sum over edges of w_e * (e_i - e_j)(e_i - e_j)^T (x) K_e + (slack of the scalar row + 5% of its diagonal) * I,
    // K_e = Q(theta_e) diag(1, c_e) Q(theta_e)^T: symmetric positive definite, K_e K_e' != K_e' K_e in general
    BlockSystem A; A.nb = nb; A.ptr.assign(S.ptr.begin(), S.ptr.end()); A.col.assign(S.col.begin(), S.col.end()); A.val.assign(S.nnz(), amgcl::math::zero<BV>());
    std::map<std::pair<long,long>, BV> K;
    std::vector<BV> diag(nb, amgcl::math::zero<BV>()); std::vector<ptrdiff_t> dpos(nb, -1);
    for (long i = 0; i < nb; ++i) {
        double sii = 0, off = 0;
        for (ptrdiff_t j = S.ptr[i]; j < S.ptr[i+1]; ++j) { if (S.col[j] == i) { sii = S.val[j]; dpos[i] = j; } else off += std::fabs(S.val[j]); }
        double slack = std::max(0.0, sii - off) + 0.05 * sii;
        diag[i](0, 0) += slack; diag[i](1, 1) += slack;
    }
    for (long i = 0; i < nb; ++i) for (ptrdiff_t j = S.ptr[i]; j < S.ptr[i+1]; ++j) { long c = S.col[j]; if (c == i) continue;
        std::pair<long,long> e(std::min(i, c), std::max(i, c)); auto it = K.find(e);
        if (it == K.end()) { double th = br.unit() * 3.141592653589793, cc = 0.1 + 0.9 * br.unit(), cs = std::cos(th), sn = std::sin(th); BV k;
            k(0, 0) = cs * cs + cc * sn * sn; k(0, 1) = (1 - cc) * cs * sn; k(1, 0) = k(0, 1); k(1, 1) = sn * sn + cc * cs * cs; it = K.insert(std::make_pair(e, k)).first; }
        double w = std::fabs(S.val[j]);
        A.val[j] = (-w) * it->second; diag[i] += w * it->second; }
    for (long i = 0; i < nb; ++i) if (dpos[i] >= 0) A.val[dpos[i]] = diag[i];
    std::vector<double> f = gen::make_vector(2 * nb, (uint64_t)p.get("vseed"), 0);
    auto sig = [&](const char *oracle, const char *clause, const std::string &detail) {
        Violation v; v.oracle = oracle; v.add("component", "mpi::make_solver<block values>"); v.add("clause", clause); v.add("coarsening", coarsening_names[coarsening]); v.add("relax", relax_names[relax]); v.add("solver", "bicgstab");
        v.add("ranks", R >= 2 ? "R>=2" : "R=1"); v.add("nullspace", "none"); v.detail = detail; return v; };
    boost::property_tree::ptree prm;
    prm.put("precond.coarse_enough", std::max<long>(1, p.get("coarse_enough") / 2));
    prm.put("precond.npre", p.get("npre")); prm.put("precond.npost", p.get("npre"));
    const bool repart_on = p.get("repart") != 0;
    prm.put("precond.repart.enable", repart_on); prm.put("precond.repart.min_per_proc", p.get("min_per_proc")); prm.put("precond.repart.shrink_ratio", p.get("shrink_ratio"));
    prm.put("precond.max_levels", 6);
    prm.put("solver.maxiter", 200);
    std::vector<double> x(2 * nb, 0.0), iters(R, -1), resid(R, -1);
    bool any_empty = false; for (int r = 0; r < R; ++r) if (rp[r+1] == rp[r]) any_empty = true;

    g_levels.clear(); g_rank_level.assign(R, 0);
    simmpi::Config mc; mc.ranks = R; mc.nt = (int)p.get("nt"); mc.late_send_read = p.get("late_send_read") != 0; mc.recv_poison = p.get("recv_poison") != 0; mc.rendezvous = p.get("rendezvous") != 0; mc.seed = (uint64_t)p.get("fseed");
    simmpi::Outcome out = simmpi::run(mc, p.sched, [&](int rank) {
        typedef rec_coarsening<amgcl::mpi::coarsening::aggregation<BBk>, true> CA;
        typedef rec_coarsening<amgcl::mpi::coarsening::smoothed_aggregation<BBk>, false> CS;
        if (coarsening == 0) { if (relax == 0) rank_body<CA, amgcl::mpi::relaxation::spai0<BBk> >(rank, A, rp, prm, f, x, iters, resid); else rank_body<CA, amgcl::mpi::relaxation::ilu0<BBk> >(rank, A, rp, prm, f, x, iters, resid); }
        else { if (relax == 0) rank_body<CS, amgcl::mpi::relaxation::spai0<BBk> >(rank, A, rp, prm, f, x, iters, resid); else rank_body<CS, amgcl::mpi::relaxation::ilu0<BBk> >(rank, A, rp, prm, f, x, iters, resid); }
    });
    res.absorb(out.sched); res.deviations = out.sched.deviations;
    res.faults["late_send_read"] += out.stats.late_reads; res.faults["late_read_changed_payload"] += out.stats.late_read_changed_payload; res.faults["recv_poison"] += out.stats.recv_poisoned;
    res.faults["rendezvous_send"] += out.stats.rendezvous_sends; if (p.sched.strategy == sim::STARVE) res.faults["rank_stall"]++;
    res.counts["messages"] += out.stats.messages; res.counts["collectives"] += out.stats.collectives; res.counts["comm_splits"] += out.stats.comm_splits;
    res.counts["block_valued_worlds"]++;
    if (any_empty) res.counts["empty_rank"]++;
    if (repart_on) res.counts["repartition_enabled"]++;
    if (out.sched.status == sim::ST_DEADLOCK) { std::string ex; for (int r = 0; r < R; ++r) if (!out.rank_exception[r].empty()) ex += fmt("rank %d threw: %s; ", r, out.rank_exception[r].c_str()); res.fail(sig("all-ranks-terminate", "deadlock", out.sched.blocked + ex)); }
    else if (out.sched.status) res.fail(sig("all-ranks-terminate", "tick-budget", out.sched.blocked));
    else {
        bool threw = false;
        bool all_same_exc = true; for (int r = 0; r < R; ++r) if (out.rank_exception[r].empty() || out.rank_exception[r] != out.rank_exception[0]) all_same_exc = false;
        if (all_same_exc && out.rank_exception[0].find("BiCGStab") != std::string::npos) { threw = true; res.counts["consistent_krylov_breakdown"]++; }      // as in the scalar worlds
        else for (int r = 0; r < R; ++r) if (!out.rank_exception[r].empty()) { threw = true; res.fail(sig("no-exception", "rank-threw", fmt("rank %d: %s", r, out.rank_exception[r].c_str()))); break; }
        if (!threw) {
            for (int r = 1; r < R; ++r) if (!bits_equal(iters[r], iters[0]) || !bits_equal(resid[r], resid[0])) { res.fail(sig("rank-consistent", "same-iterations-and-residual", fmt("rank 0: %.0f iterations, residual %.17g; rank %d: %.0f, %.17g", iters[0], resid[0], r, iters[r], resid[r]))); break; }
            long double rr = 0, ff = 0, ainf = 0, xinf = 0, finf = 0; long maxrow = 1;
            for (long i = 0; i < nb; ++i) { maxrow = std::max<long>(maxrow, 2 * (A.ptr[i+1] - A.ptr[i]));
                for (int a = 0; a < 2; ++a) { long double t = f[2 * i + a], rs = 0; for (ptrdiff_t j = A.ptr[i]; j < A.ptr[i+1]; ++j) for (int b = 0; b < 2; ++b) { t -= (long double)A.val[j](a, b) * x[2 * A.col[j] + b]; rs += std::fabs((long double)A.val[j](a, b)); }
                    rr += t * t; ff += (long double)f[2 * i + a] * f[2 * i + a]; ainf = std::max(ainf, rs); xinf = std::max(xinf, (long double)std::fabs(x[2 * i + a])); finf = std::max(finf, (long double)std::fabs(f[2 * i + a])); } }
            double rstar = (double)std::sqrt((double)(rr / (ff > 0 ? ff : 1))), tol = 1e-8;
            double delta = (double)(200.0L * (iters[0] + 1) * 3.0L * (maxrow + 1) * 1.2e-16L * (ainf * xinf / (finf > 0 ? finf : 1) + 1));
            bool finite = std::isfinite(rstar) && std::isfinite((double)xinf);
            if (!finite) { if (std::isfinite(resid[0]) && resid[0] < 1) res.fail(sig("truthful-residual", "nonfinite-solution-reported-finite", fmt("gathered solution is not finite, reported residual %.3g", resid[0]))); res.counts["nonfinite_outcomes"]++; }
            else if (delta < 0.1 * tol) {
                if (resid[0] < tol && !(rstar < 1.05 * tol + delta)) res.fail(sig("truthful-residual", "reported-converged-but-is-not", fmt("reported %.6g after %.0f iterations, true global residual %.6g", resid[0], iters[0], rstar)));
                else if (!(resid[0] < tol && rstar < tol) && !(std::fabs(resid[0] - rstar) <= 0.05 * std::max(resid[0], rstar) + delta)) res.fail(sig("truthful-residual", "reported-differs-from-true", fmt("reported %.6g, true %.6g after %.0f iterations", resid[0], rstar, iters[0])));
                res.counts["truthfulness_evaluated"]++;
            }
            if (finite && resid[0] < tol) res.counts["block_valued_converged"]++;
            for (size_t l = 0; l < g_levels.size(); ++l) {
                const LevelRec &L = g_levels[l];
                if (L.calls != R) { res.fail(sig("coarsening-structure", "every-rank-coarsens-every-level", fmt("level %zu: %d of %d ranks called coarse_operator", l, L.calls, R))); break; }
                if (L.nA > 260) continue;
                res.counts["distributed_levels_checked"]++; res.counts["block_valued_levels_checked"]++;
                const long nA = L.nA, nC = L.nC;
                // R is the block adjoint of P: the transpose of its scalar expansion
                bool rt = L.R.size() == L.P.size(); if (rt) for (Entries::const_iterator it = L.P.begin(); it != L.P.end(); ++it) { Entries::const_iterator q = L.R.find(std::make_pair(it->first.second, it->first.first)); if (q == L.R.end() || (q->second != it->second && !(q->second != q->second && it->second != it->second))) { rt = false; break; } }
                if (!rt) res.fail(sig("coarsening-structure", "R=P^T", fmt("level %zu", l)));
                std::vector<long double> AP((size_t)nA * nC, 0.0L), AbsAP((size_t)nA * nC, 0.0L);
                for (Entries::const_iterator a = L.A.begin(); a != L.A.end(); ++a) for (Entries::const_iterator q = L.P.lower_bound(std::make_pair(a->first.second, -1L)); q != L.P.end() && q->first.first == a->first.second; ++q) { AP[(size_t)a->first.first * nC + q->first.second] += (long double)a->second * q->second; AbsAP[(size_t)a->first.first * nC + q->first.second] += std::fabs((long double)a->second * q->second); }
                std::vector<long double> RAP((size_t)nC * nC, 0.0L), Bnd((size_t)nC * nC, 0.0L);
                for (Entries::const_iterator r2 = L.R.begin(); r2 != L.R.end(); ++r2) for (long c = 0; c < nC; ++c) { RAP[(size_t)r2->first.first * nC + c] += (long double)r2->second * AP[(size_t)r2->first.second * nC + c]; Bnd[(size_t)r2->first.first * nC + c] += std::fabs((long double)r2->second) * AbsAP[(size_t)r2->first.second * nC + c]; }
                std::vector<double> Dn((size_t)nC * nC, 0.0); for (Entries::const_iterator c = L.Ac.begin(); c != L.Ac.end(); ++c) if (c->first.first < nC && c->first.second < nC) Dn[(size_t)c->first.first * nC + c->first.second] += c->second;
                for (long i = 0; i < nC * nC; ++i) { long double want = RAP[i] * L.scale, tl = 64 * 1.2e-16L * Bnd[i] * L.scale + 1e-300L; if (std::fabs((long double)Dn[i] - want) > tl) { res.fail(sig("coarsening-structure", "A_c=R*A*P", fmt("level %zu: A_c(%ld,%ld) = %.17g, R*A*P*%g = %.17Lg (scalar expansion of the 2x2 blocks)", l, i / nC, i % nC, Dn[i], L.scale, want))); break; } }
                std::vector<int> colcnt(nC, 0); std::map<long, std::map<long, double> > prow;
                for (Entries::const_iterator q = L.P.begin(); q != L.P.end(); ++q) { if (q->first.second < nC && q->second != 0) colcnt[q->first.second]++; prow[q->first.first][q->first.second] = q->second; }
                if (coarsening == 0) {
                    // plain aggregation: an aggregated block row holds exactly one identity block
                    for (long i = 0; i < nA / 2; ++i) { auto r0 = prow.find(2 * i), r1 = prow.find(2 * i + 1); if (r0 == prow.end() && r1 == prow.end()) continue;
                        bool ok = r0 != prow.end() && r1 != prow.end() && r0->second.size() == 2 && r1->second.size() == 2; long c0 = ok ? r0->second.begin()->first : -1;
                        if (ok) ok = c0 % 2 == 0 && r1->second.begin()->first == c0 && r0->second[c0] == 1 && r0->second[c0 + 1] == 0 && r1->second[c0] == 0 && r1->second[c0 + 1] == 1;
                        if (!ok) { res.fail(sig("coarsening-structure", "exactly-one-aggregate", fmt("level %zu: block row %ld of the tentative prolongation is not a single identity block", l, i))); break; } }
                }
                for (long c = 0; c < nC; ++c) if (colcnt[c] == 0) { res.fail(sig("coarsening-structure", "no-empty-aggregate", fmt("level %zu: coarse unknown %ld has no fine member", l, c))); break; }
            }
        }
    }
    res.nontrivial = R >= 2 && out.stats.messages >= 1;
    uint64_t key = gen::digest(S); for (int r = 0; r <= R; ++r) key = sim::hash_combine(key, (uint64_t)rp[r]);
    key = sim::hash_combine(key, (uint64_t)(coarsening * 1000 + relax * 100 + p.get("repart") + 100000 * 4)); key = sim::hash_combine(key, (uint64_t)(mc.late_send_read * 4 + mc.recv_poison * 2 + mc.rendezvous + 8 * p.get("coarse_enough")));
    for (size_t i = 0; i < out.sched.deviations.size() && i < 64; ++i) key = sim::hash_combine(key, out.sched.deviations[i].first * 31 + out.sched.deviations[i].second);
    res.key = key; res.hash = sim::hash_combine(res.hash, vec_digest(x)); res.hash = sim::hash_combine(res.hash, (uint64_t)iters[0]);
    js::Value s = js::Value::object();
    s.set("kind", "mpi::make_solver<block values>"); s.set("ranks", R); s.set("family", gen::family_name((int)p.get("family"))); s.set("n", 2 * nb); s.set("coarsening", coarsening_names[coarsening]); s.set("relax", relax_names[relax]); s.set("solver", "bicgstab");
    js::Value jp = js::Value::array(); for (int r = 0; r <= R; ++r) jp.push(rp[r]); s.set("row_partition", jp);
    s.set("repartition", (long)repart_on); s.set("late_send_read", (long)mc.late_send_read); s.set("recv_poison", (long)mc.recv_poison); s.set("rendezvous", (long)mc.rendezvous);
    s.set("strategy", sim::strategy_name(p.sched.strategy)); s.set("messages", (unsigned long long)out.stats.messages); s.set("iters", iters[0]); s.set("resid", resid[0]);
    res.sample = s;
}
}
