#include <algorithm>
// C11 — distributed matrix algebra equals serial algebra for every partition.
// World: a global (rectangular) matrix, R ranks = fibers of the simulated MPI (sim/mpi.cpp), contiguous row and
// column partitions drawn from all compositions (empty ranks allowed), per-rank OpenMP teams, seeded delivery faults
// (late send-buffer reads, poisoned receive buffers, rendezvous sends, stalled rank, shuffled completion order).
// Every rank builds its strip and runs the same script; results land in harness arrays and are compared with the
// serial kernels on the assembled matrix (integer data: exact).
#include "common.hpp"
#include "../sim/mpi.hpp"
#include <amgcl/mpi/util.hpp>
#include <amgcl/mpi/distributed_matrix.hpp>
#include <amgcl/mpi/inner_product.hpp>
#include <complex>
#include <amgcl/value_type/complex.hpp>
#include <amgcl/value_type/static_matrix.hpp>
#include "harness_main.hpp"

const char *CHECK_ID = "C11";
using namespace cm;
using hz::Plan; using hz::Result; using hz::Violation;
namespace be = amgcl::backend;
typedef amgcl::mpi::distributed_matrix<DBackend> DM;
typedef std::map<std::pair<long,long>, double> Entries;

static std::vector<long> draw_partition(sim::rng &r, long n, int R) {
    // uniform over all compositions of n into R non-negative parts: R-1 cut points among n+R-1 slots
    std::vector<long> cuts; for (int i = 0; i < R - 1; ++i) cuts.push_back((long)r.below((uint64_t)n + 1));
    std::sort(cuts.begin(), cuts.end());
    std::vector<long> p(1, 0); for (size_t i = 0; i < cuts.size(); ++i) p.push_back(cuts[i]); p.push_back(n);
    return p;
}

Plan generate(uint64_t seed, uint64_t run, bool thorough) {
    sim::rng r(seed, "world", run);
    Plan p;
    p.set("R", r.range(1, 8), 1);
    double u = r.unit();
    p.set("n", u < 0.5 ? r.range(0, 7) : r.range(4, thorough ? 120 : 50), 0);
    p.set("m", u < 0.5 ? r.range(1, 7) : r.range(2, thorough ? 120 : 50), 1);
    p.set("k", r.range(1, u < 0.5 ? 7 : 40), 1);
    p.set("square", r.range(0, 1), 0); p.set("indep_cols", r.range(0, 1), 0);
    p.set("density", r.range(5, 70), 5);
    p.set("mseed", (long)(r.next() >> 16), 0); p.set("pseed", (long)(r.next() >> 16), 0); p.set("vseed", (long)(r.next() >> 16), 0);
    p.set("alpha", r.range(-2, 3), 0); p.set("beta", r.range(-2, 2), 0);
    p.set("late_send_read", r.range(0, 1), 0); p.set("recv_poison", r.range(0, 1), 0); p.set("rendezvous", r.range(0, 1), 0);
    p.set("fseed", (long)(r.next() >> 16), 0);
    static const long nts[] = { 1, 1, 2, 4 };
    p.set("nt", nts[r.below(4)], 1);
    p.set("power_iters", r.range(1, 6), 1);
    draw_schedule(r, p.sched, (int)p.get("R"));
    return p;
}

template <class M>
static void add_strip(Entries &e, const M &loc, const M &rem, long row0, long col0) {
    for (size_t i = 0; i < loc.nrows; ++i) {
        for (ptrdiff_t j = loc.ptr[i]; j < loc.ptr[i+1]; ++j) e[std::make_pair(row0 + (long)i, col0 + (long)loc.col[j])] += (double)loc.val[j];
        for (ptrdiff_t j = rem.ptr[i]; j < rem.ptr[i+1]; ++j) e[std::make_pair(row0 + (long)i, (long)rem.col[j])] += (double)rem.val[j];
    }
}
// block (i,j) of the block-valued test matrices: a_ij times one of three integer matrices that do not commute
static amgcl::static_matrix<double,2,2> blk(double a, long c) {
    amgcl::static_matrix<double,2,2> k; int t = (int)(((c % 3) + 3) % 3);
    k(0,0) = t == 2 ? 0 : 1; k(0,1) = t == 1 ? 0 : 1; k(1,0) = t == 0 ? 0 : 1; k(1,1) = t == 2 ? 0 : 1;
    return a * k;
}
template <class M>
static void add_block_strip(Entries &e, const M &loc, const M &rem, long row0, long col0) {
    for (size_t i = 0; i < loc.nrows; ++i) {
        for (ptrdiff_t j = loc.ptr[i]; j < loc.ptr[i+1]; ++j) for (int a = 0; a < 2; ++a) for (int b = 0; b < 2; ++b) e[std::make_pair(2 * (row0 + (long)i) + a, 2 * (col0 + (long)loc.col[j]) + b)] += loc.val[j](a, b);
        for (ptrdiff_t j = rem.ptr[i]; j < rem.ptr[i+1]; ++j) for (int a = 0; a < 2; ++a) for (int b = 0; b < 2; ++b) e[std::make_pair(2 * (row0 + (long)i) + a, 2 * (long)rem.col[j] + b)] += rem.val[j](a, b);
    }
}
static std::string same(const Entries &got, const Entries &want) {
    for (Entries::const_iterator it = got.begin(); it != got.end(); ++it) { Entries::const_iterator w = want.find(it->first); double wv = w == want.end() ? 0.0 : w->second; if (it->second != wv) return fmt("entry (%ld,%ld) = %.17g, serial result %.17g", it->first.first, it->first.second, it->second, wv); }
    for (Entries::const_iterator it = want.begin(); it != want.end(); ++it) if (it->second != 0 && !got.count(it->first)) return fmt("entry (%ld,%ld) = %.17g of the serial result is missing", it->first.first, it->first.second, it->second);
    return "";
}
static gen::Csr strip(const gen::Csr &A, long r0, long r1) {
    gen::Csr S; S.n = r1 - r0; S.m = A.m; S.ptr.push_back(0);
    for (long i = r0; i < r1; ++i) { for (ptrdiff_t j = A.ptr[i]; j < A.ptr[i+1]; ++j) { S.col.push_back(A.col[j]); S.val.push_back(A.val[j]); } S.ptr.push_back((ptrdiff_t)S.col.size()); }
    return S;
}

Result execute(const Plan &p) {
    Result res;
    int R = (int)p.get("R"); long n = p.get("n"), m = p.get("square") ? n : p.get("m"), kk = p.get("k");
    if (m < 1) m = 1;
    bool square = (m == n);
    gen::Csr A = gen::make_rect(n, m, (uint64_t)p.get("mseed"), (int)p.get("density"), true, true);
    gen::Csr B = gen::make_rect(m, kk, (uint64_t)p.get("mseed") + 1, (int)p.get("density"), true, true);
    if (square) for (long i = 0; i < n; ++i) { bool has = false; for (ptrdiff_t j = A.ptr[i]; j < A.ptr[i+1]; ++j) if (A.col[j] == i) has = true; (void)has; }
    sim::rng pr((uint64_t)p.get("pseed"), "partition");
    // square matrices: conformal row/column distribution (system matrices) or, half of the time, independent ones (permutations,
    // transfer-like operators that happen to be square)
    bool conformal = square && !(p.get("indep_cols", 0));
    std::vector<long> rp = draw_partition(pr, n, R), cp = conformal ? rp : draw_partition(pr, m, R), kp = draw_partition(pr, kk, R);
    std::vector<double> x2 = gen::make_vector(m, (uint64_t)p.get("vseed") + 7, 1), x3 = gen::make_vector(m, (uint64_t)p.get("vseed") + 8, 1);
    std::vector<double> x = gen::make_vector(m, (uint64_t)p.get("vseed"), 1), y0 = gen::make_vector(n, (uint64_t)p.get("vseed") + 1, 1), z0 = gen::make_vector(n, (uint64_t)p.get("vseed") + 2, 1);
    double alpha = (double)p.get("alpha"), beta = (double)p.get("beta");
    auto sig = [&](const char *oracle, const char *clause, const std::string &detail) { Violation v; v.oracle = oracle; v.add("component", "distributed_matrix"); v.add("clause", clause); v.add("ranks", R); v.detail = detail; return v; };

    // harness-side result stores (all ranks share the process)
    Entries gotA, gotT, gotC, gotS, gotF, gotFC, gotK, gotKT, gotKC, gotKF, gotBT, gotBC;
    std::vector<double> yk(n, 0.0), gshs(R, 0.0), pows(R, 0.0);
    // a copy of A with a guaranteed non-zero diagonal (scaled spectral radius estimates)
    gen::Csr Adg; if (square) { gen::Builder bd(n, n); for (long i = 0; i < n; ++i) { double s = 0; for (ptrdiff_t j = A.ptr[i]; j < A.ptr[i+1]; ++j) { s += std::fabs(A.val[j]); if (A.col[j] != i) bd.set(i, A.col[j], A.val[j]); } bd.set(i, i, (double)(1 + ((long)s) % 7) * ((i % 3) ? 1.0 : -2.0)); } Adg = bd.finish(); }
    std::vector<double> y1(n, 0.0), y2(n, 0.0), rr(n, 0.0);
    std::vector<double> ip(R, 0.0), gersh(R, 0.0), gershs(R, 0.0), power(R, 0.0), ipc_re(R, 0.0), ipc_im(R, 0.0), ipb(R, 0.0);
    std::vector<long> grows(R, -1), gcols(R, -1), gnnz(R, -1);
    std::vector<std::string> fails(R);
    bool any_empty = false; for (int r = 0; r < R; ++r) if (rp[r+1] == rp[r]) any_empty = true;

    simmpi::Config mc; mc.ranks = R; mc.nt = (int)p.get("nt"); mc.late_send_read = p.get("late_send_read") != 0; mc.recv_poison = p.get("recv_poison") != 0; mc.rendezvous = p.get("rendezvous") != 0; mc.seed = (uint64_t)p.get("fseed");
    simmpi::Outcome out = simmpi::run(mc, p.sched, [&](int rank) {
        amgcl::mpi::communicator comm(MPI_COMM_WORLD);
        long r0 = rp[rank], r1 = rp[rank+1], c0 = cp[rank], c1 = cp[rank+1];
        gen::Csr As = strip(A, r0, r1), Bs = strip(B, c0, c1);
        DM dA(comm, std::make_tuple((size_t)As.n, std::ref(As.ptr), std::ref(As.col), std::ref(As.val)), c1 - c0);
        DM dB(comm, std::make_tuple((size_t)Bs.n, std::ref(Bs.ptr), std::ref(Bs.col), std::ref(Bs.val)), kp[rank+1] - kp[rank]);
        grows[rank] = dA.glob_rows(); gcols[rank] = dA.glob_cols(); gnnz[rank] = dA.glob_nonzeros();
        if (dA.loc_col_shift() != c0) fails[rank] += fmt("loc_col_shift %ld expected %ld; ", (long)dA.loc_col_shift(), c0);
        add_strip(gotA, *dA.local(), *dA.remote(), r0, c0);
        // transpose: rows of A^T are distributed like the columns of A
        auto dT = amgcl::mpi::transpose(dA);
        if (dT->loc_rows() != c1 - c0) fails[rank] += fmt("transpose has %ld local rows, expected %ld; ", (long)dT->loc_rows(), c1 - c0);
        add_strip(gotT, *dT->local(), *dT->remote(), c0, r0);
        // product
        auto dC = amgcl::mpi::product(dA, dB);
        add_strip(gotC, *dC->local(), *dC->remote(), r0, kp[rank]);
        { amgcl::mpi::sort_rows(*dC);   // products and transposes come out with unordered rows; sorting them must order both parts
          for (int part = 0; part < 2; ++part) { const auto &M = part ? *dC->remote() : *dC->local();
            for (size_t i = 0; i < M.nrows; ++i) for (ptrdiff_t j = M.ptr[i] + 1; j < M.ptr[i+1]; ++j) if (M.col[j] < M.col[j-1]) { fails[rank] += fmt("sort_rows(product) left an unsorted %s row; ", part ? "remote" : "local"); i = M.nrows - 1; break; } } }
        // scale + sort_rows on a copy
        { gen::Csr Ar = As;   // the caller's rows in descending column order: sort_rows has real work in the local and in the remote part
          for (long i = 0; i < Ar.n; ++i) { std::reverse(Ar.col.begin() + Ar.ptr[i], Ar.col.begin() + Ar.ptr[i+1]); std::reverse(Ar.val.begin() + Ar.ptr[i], Ar.val.begin() + Ar.ptr[i+1]); }
          DM dS(comm, std::make_tuple((size_t)Ar.n, std::ref(Ar.ptr), std::ref(Ar.col), std::ref(Ar.val)), c1 - c0);
          amgcl::mpi::scale(dS, 0.5); amgcl::mpi::sort_rows(dS);
          for (size_t i = 0; i < dS.local()->nrows; ++i) for (ptrdiff_t j = dS.local()->ptr[i] + 1; j < dS.local()->ptr[i+1]; ++j) if (dS.local()->col[j] <= dS.local()->col[j-1]) { fails[rank] += "sort_rows left an unsorted local row; "; break; }
          for (size_t i = 0; i < dS.remote()->nrows; ++i) for (ptrdiff_t j = dS.remote()->ptr[i] + 1; j < dS.remote()->ptr[i+1]; ++j) if (dS.remote()->col[j] <= dS.remote()->col[j-1]) { fails[rank] += fmt("sort_rows left an unsorted remote row (row %ld: columns %ld, %ld; remote part has %ld entries in %ld rows); ", (long)i, (long)dS.remote()->col[j-1], (long)dS.remote()->col[j], (long)dS.remote()->nnz, (long)dS.remote()->nrows); i = dS.remote()->nrows - 1; break; }
          add_strip(gotS, *dS.local(), *dS.remote(), r0, c0); }
        // copy into another backend (float values)
        { typedef amgcl::mpi::distributed_matrix<amgcl::backend::builtin<float> > DMF;
          DMF dF(dA); add_strip(gotF, *dF.local(), *dF.remote(), r0, c0);
          // the copy is a full distributed matrix: same offsets and sizes, and usable as an operand (small integers: exact in float)
          if (dF.loc_col_shift() != dA.loc_col_shift() || dF.loc_rows() != dA.loc_rows() || dF.loc_cols() != dA.loc_cols() || dF.glob_rows() != dA.glob_rows() || dF.glob_cols() != dA.glob_cols() || dF.glob_nonzeros() != dA.glob_nonzeros())
              fails[rank] += fmt("copy to another backend: column offset %ld (source %ld), local %ldx%ld (source %ldx%ld); ", (long)dF.loc_col_shift(), (long)dA.loc_col_shift(), (long)dF.loc_rows(), (long)dF.loc_cols(), (long)dA.loc_rows(), (long)dA.loc_cols());
          DMF dFB(dB); auto dFC = amgcl::mpi::product(dF, dFB); add_strip(gotFC, *dFC->local(), *dFC->remote(), r0, kp[rank]); }
        // block-valued matrices (2x2 static_matrix, integer blocks that do not commute): values travel as MPI datatypes of whole blocks
        { typedef amgcl::static_matrix<double,2,2> BV; typedef amgcl::mpi::distributed_matrix<amgcl::backend::builtin<BV> > DMB;
          std::vector<BV> va(As.val.size()), vb(Bs.val.size());
          for (size_t q = 0; q < va.size(); ++q) va[q] = blk(As.val[q], As.col[q]);
          for (size_t q = 0; q < vb.size(); ++q) vb[q] = blk(Bs.val[q], Bs.col[q] + 1);
          DMB dBA(comm, std::make_tuple((size_t)As.n, std::ref(As.ptr), std::ref(As.col), std::ref(va)), c1 - c0);
          DMB dBB(comm, std::make_tuple((size_t)Bs.n, std::ref(Bs.ptr), std::ref(Bs.col), std::ref(vb)), kp[rank+1] - kp[rank]);
          auto dBT = amgcl::mpi::transpose(dBA); add_block_strip(gotBT, *dBT->local(), *dBT->remote(), c0, r0);
          auto dBC = amgcl::mpi::product(dBA, dBB); add_block_strip(gotBC, *dBC->local(), *dBC->remote(), r0, kp[rank]); }
        // spectral radius (square matrices distributed conformally)
        if (conformal && n > 0) {
            gen::Csr Ad = strip(A, r0, r1);
            // make sure every row has a diagonal entry for the scaled variant
            gersh[rank] = be::spectral_radius<false>(dA, 0);
            power[rank] = be::spectral_radius<false>(dA, (int)p.get("power_iters"));
        }
        if (conformal && n > 0) {
            gen::Csr Ds = strip(Adg, r0, r1);
            DM dD(comm, std::make_tuple((size_t)Ds.n, std::ref(Ds.ptr), std::ref(Ds.col), std::ref(Ds.val)), c1 - c0);
            gshs[rank] = be::spectral_radius<true>(dD, 0);
            pows[rank] = be::spectral_radius<true>(dD, (int)p.get("power_iters"));
        }
        // history on one object: moved to the backend with keep_src = true (what a rebuildable hierarchy does), then used as a
        // build matrix again: local()/remote() must still describe the matrix in global column numbers
        {
            DM dK(comm, std::make_tuple((size_t)As.n, std::ref(As.ptr), std::ref(As.col), std::ref(As.val)), c1 - c0);
            dK.move_to_backend(DBackend::params(), true);
            std::vector<double> xk(x.begin() + c0, x.begin() + c1), ok(r1 - r0, std::numeric_limits<double>::quiet_NaN());
            dK.mul(1.0, xk, 0.0, ok);
            for (long i = r0; i < r1; ++i) yk[i] = ok[i - r0];
            if (!dK.local() || !dK.remote()) fails[rank] += "keep_src=true dropped the build matrices; ";
            else {
                add_strip(gotK, *dK.local(), *dK.remote(), r0, c0);
                auto dKT = amgcl::mpi::transpose(dK); add_strip(gotKT, *dKT->local(), *dKT->remote(), c0, r0);
                auto dKC = amgcl::mpi::product(dK, dB); add_strip(gotKC, *dKC->local(), *dKC->remote(), r0, kp[rank]);
                amgcl::mpi::distributed_matrix<amgcl::backend::builtin<float> > dF(dK); add_strip(gotKF, *dF.local(), *dF.remote(), r0, c0);
                dK.mul(1.0, xk, 0.0, ok);      // and the backend copy still works afterwards
                for (long i = r0; i < r1; ++i) if (yk[i] != ok[i - r0]) fails[rank] += "product after re-use of the kept source differs; ";
            }
        }
        // matrix-vector products: twice on the same object (send/receive buffers and requests are reused)
        dA.move_to_backend();
        std::vector<double> xl(x.begin() + c0, x.begin() + c1), yl(y0.begin() + r0, y0.begin() + r1), zl(z0.begin() + r0, z0.begin() + r1), rl(r1 - r0, 777.0);
        std::vector<double> out1(r1 - r0, std::numeric_limits<double>::quiet_NaN());
        dA.mul(alpha, xl, 0.0, out1);                 // beta == 0: previous content of y must not matter
        // consecutive products on one object with DIFFERENT vectors: the send buffers of the first exchange must not be
        // touched while MPI may still read them
        std::vector<double> xl2(x2.begin() + c0, x2.begin() + c1), xl3(x3.begin() + c0, x3.begin() + c1);
        std::vector<double> out2 = yl; dA.mul(alpha, xl2, beta, out2);
        dA.residual(zl, xl3, rl);
        for (long i = r0; i < r1; ++i) { y1[i] = out1[i - r0]; y2[i] = out2[i - r0]; rr[i] = rl[i - r0]; }
        amgcl::mpi::inner_product dot(comm);
        ip[rank] = dot(yl, zl);
        {   // complex and block vectors: conjugate-linear in the SECOND argument, as the serial kernel (integer parts: exact)
            typedef std::complex<double> CX; typedef amgcl::static_matrix<double,2,1> RV;
            std::vector<CX> yc(r1 - r0), zc(r1 - r0); std::vector<RV> yb(r1 - r0), zb(r1 - r0);
            for (long i = r0; i < r1; ++i) { yc[i - r0] = CX(y0[i], z0[i]); zc[i - r0] = CX(z0[i], (double)((i % 5) - 2)); yb[i - r0](0) = y0[i]; yb[i - r0](1) = z0[i]; zb[i - r0](0) = z0[i]; zb[i - r0](1) = (double)((i % 5) - 2); }
            CX c = dot(yc, zc); ipc_re[rank] = c.real(); ipc_im[rank] = c.imag(); ipb[rank] = dot(yb, zb);
        }
    });
    res.absorb(out.sched); res.deviations = out.sched.deviations;
    res.faults["late_send_read"] += out.stats.late_reads; res.faults["late_read_changed_payload"] += out.stats.late_read_changed_payload; res.faults["recv_poison"] += out.stats.recv_poisoned;
    res.faults["rendezvous_send"] += out.stats.rendezvous_sends; if (p.sched.strategy == sim::STARVE) res.faults["rank_stall"]++;
    res.counts["messages"] += out.stats.messages; res.counts["collectives"] += out.stats.collectives; res.counts["mpi_calls"] += out.stats.mpi_calls;
    if (any_empty) res.counts["empty_rank"]++;
    if (out.sched.status == sim::ST_DEADLOCK) res.fail(sig("all-ranks-terminate", "deadlock", out.sched.blocked));
    else if (out.sched.status) res.fail(sig("all-ranks-terminate", "budget", out.sched.blocked));
    bool threw = false; for (int r = 0; r < R; ++r) if (!out.rank_exception[r].empty()) { threw = true; res.fail(sig("no-exception", "rank-threw", fmt("rank %d: %s", r, out.rank_exception[r].c_str()))); break; }
    if (!out.sched.status && !threw) {
        for (int r = 0; r < R; ++r) if (!fails[r].empty()) res.fail(sig("serial-equivalence", "structure", fmt("rank %d: %s", r, fails[r].c_str())));
        Entries wantA; for (long i = 0; i < n; ++i) for (ptrdiff_t j = A.ptr[i]; j < A.ptr[i+1]; ++j) wantA[std::make_pair(i, (long)A.col[j])] += A.val[j];
        Entries wantB; for (long i = 0; i < m; ++i) for (ptrdiff_t j = B.ptr[i]; j < B.ptr[i+1]; ++j) wantB[std::make_pair(i, (long)B.col[j])] += B.val[j];
        std::string e;
        if (!(e = same(gotA, wantA)).empty()) res.fail(sig("serial-equivalence", "construction-from-strips", e));
        Entries wantT; for (Entries::iterator it = wantA.begin(); it != wantA.end(); ++it) wantT[std::make_pair(it->first.second, it->first.first)] = it->second;
        if (!(e = same(gotT, wantT)).empty()) res.fail(sig("serial-equivalence", "transpose", e));
        Entries wantC; for (Entries::iterator ia = wantA.begin(); ia != wantA.end(); ++ia) for (Entries::iterator ib = wantB.lower_bound(std::make_pair(ia->first.second, -1L)); ib != wantB.end() && ib->first.first == ia->first.second; ++ib) wantC[std::make_pair(ia->first.first, ib->first.second)] += ia->second * ib->second;
        if (!(e = same(gotC, wantC)).empty()) res.fail(sig("serial-equivalence", "product", e));
        Entries wantS = wantA; for (Entries::iterator it = wantS.begin(); it != wantS.end(); ++it) it->second *= 0.5;
        if (!(e = same(gotS, wantS)).empty()) res.fail(sig("serial-equivalence", "scale-sort_rows", e));
        if (!(e = same(gotF, wantA)).empty()) res.fail(sig("serial-equivalence", "copy-between-backends", e));
        if (!(e = same(gotFC, wantC)).empty()) res.fail(sig("serial-equivalence", "product-of-copies-in-another-backend", e));
        {   // block-valued transpose (adjoint blocks) and product in the scalar expansion of the blocks
            Entries eA, eB, wantBT, wantBC;
            for (long i = 0; i < n; ++i) for (ptrdiff_t j = A.ptr[i]; j < A.ptr[i+1]; ++j) { auto k = blk(A.val[j], A.col[j]); for (int a = 0; a < 2; ++a) for (int b = 0; b < 2; ++b) eA[std::make_pair(2 * i + a, 2 * (long)A.col[j] + b)] += k(a, b); }
            for (long i = 0; i < m; ++i) for (ptrdiff_t j = B.ptr[i]; j < B.ptr[i+1]; ++j) { auto k = blk(B.val[j], B.col[j] + 1); for (int a = 0; a < 2; ++a) for (int b = 0; b < 2; ++b) eB[std::make_pair(2 * i + a, 2 * (long)B.col[j] + b)] += k(a, b); }
            for (Entries::iterator it = eA.begin(); it != eA.end(); ++it) wantBT[std::make_pair(it->first.second, it->first.first)] = it->second;
            for (Entries::iterator ia = eA.begin(); ia != eA.end(); ++ia) for (Entries::iterator ib = eB.lower_bound(std::make_pair(ia->first.second, -1L)); ib != eB.end() && ib->first.first == ia->first.second; ++ib) wantBC[std::make_pair(ia->first.first, ib->first.second)] += ia->second * ib->second;
            if (!(e = same(gotBT, wantBT)).empty()) res.fail(sig("serial-equivalence", "block-valued-transpose", e));
            if (!(e = same(gotBC, wantBC)).empty()) res.fail(sig("serial-equivalence", "block-valued-product", e));
            res.counts["block_valued_matrices"]++;
        }
        if (!(e = same(gotK, wantA)).empty()) res.fail(sig("serial-equivalence", "kept-source-after-move_to_backend", e));
        if (!(e = same(gotKT, wantT)).empty()) res.fail(sig("serial-equivalence", "transpose-after-move_to_backend(keep_src)", e));
        if (!(e = same(gotKC, wantC)).empty()) res.fail(sig("serial-equivalence", "product-after-move_to_backend(keep_src)", e));
        if (!(e = same(gotKF, wantA)).empty()) res.fail(sig("serial-equivalence", "copy-after-move_to_backend(keep_src)", e));
        for (int r = 0; r < R; ++r) if (grows[r] != n || gcols[r] != m || gnnz[r] != (long)A.nnz()) { res.fail(sig("collective-scalars", "global-sizes", fmt("rank %d reports %ld x %ld with %ld nonzeros, expected %ld x %ld with %zu", r, grows[r], gcols[r], gnnz[r], n, m, A.nnz()))); break; }
        for (long i = 0; i < n; ++i) { double ax = 0, ax2 = 0, ax3 = 0; for (ptrdiff_t j = A.ptr[i]; j < A.ptr[i+1]; ++j) { ax += A.val[j] * x[A.col[j]]; ax2 += A.val[j] * x2[A.col[j]]; ax3 += A.val[j] * x3[A.col[j]]; }
            if (y1[i] != alpha * ax) { res.fail(sig("serial-equivalence", "spmv-beta-zero", fmt("row %ld: %.17g, serial %.17g", i, y1[i], alpha * ax))); break; }
            if (y2[i] != alpha * ax2 + beta * y0[i]) { res.fail(sig("serial-equivalence", "spmv-repeated", fmt("row %ld: %.17g, serial %.17g", i, y2[i], alpha * ax2 + beta * y0[i]))); break; }
            if (yk[i] != ax) { res.fail(sig("serial-equivalence", "spmv-kept-source", fmt("row %ld: %.17g, serial %.17g", i, yk[i], ax))); break; }
            if (rr[i] != z0[i] - ax3) { res.fail(sig("serial-equivalence", "residual", fmt("row %ld: %.17g, serial %.17g", i, rr[i], z0[i] - ax3))); break; } }
        double dot = 0; for (long i = 0; i < n; ++i) dot += y0[i] * z0[i];
        { std::complex<double> dc(0, 0); double db = 0; for (long i = 0; i < n; ++i) { std::complex<double> a(y0[i], z0[i]), b(z0[i], (double)((i % 5) - 2)); dc += a * std::conj(b); db += y0[i] * z0[i] + z0[i] * (double)((i % 5) - 2); }
          for (int r = 0; r < R; ++r) if (ipc_re[r] != dc.real() || ipc_im[r] != dc.imag()) { res.fail(sig("collective-scalars", "inner-product-complex", fmt("rank %d: %.17g%+.17gi, serial %.17g%+.17gi", r, ipc_re[r], ipc_im[r], dc.real(), dc.imag()))); break; }
          for (int r = 0; r < R; ++r) if (ipb[r] != db) { res.fail(sig("collective-scalars", "inner-product-block-vectors", fmt("rank %d: %.17g, serial %.17g", r, ipb[r], db))); break; } }
        for (int r = 0; r < R; ++r) if (ip[r] != dot) { res.fail(sig("collective-scalars", "inner-product", fmt("rank %d: %.17g, serial %.17g", r, ip[r], dot))); break; }
        if (conformal && n > 0) {
            double want = 0; for (long i = 0; i < n; ++i) { double s = 0; for (ptrdiff_t j = A.ptr[i]; j < A.ptr[i+1]; ++j) s += std::fabs(A.val[j]); want = std::max(want, s); }
            double wants = 0; for (long i = 0; i < n; ++i) { double sm = 0, dia = 1; for (ptrdiff_t j = Adg.ptr[i]; j < Adg.ptr[i+1]; ++j) { sm += std::fabs(Adg.val[j]); if (Adg.col[j] == i) dia = Adg.val[j]; } wants = std::max(wants, sm * std::fabs(1 / dia)); }
            for (int r = 0; r < R; ++r) if (gshs[r] != wants) { res.fail(sig("collective-scalars", "gershgorin-scaled", fmt("rank %d: %.17g, serial %.17g", r, gshs[r], wants))); break; }
            for (int r = 0; r < R; ++r) { if (gersh[r] != want) { res.fail(sig("collective-scalars", "gershgorin", fmt("rank %d: %.17g, serial %.17g", r, gersh[r], want))); break; }
                if (!bits_equal(pows[r], pows[0])) { res.fail(sig("collective-scalars", "scaled-power-method-identical-on-ranks", fmt("rank %d: %.17g, rank 0: %.17g", r, pows[r], pows[0]))); break; }
                if (!bits_equal(power[r], power[0])) { res.fail(sig("collective-scalars", "power-method-identical-on-ranks", fmt("rank %d: %.17g, rank 0: %.17g", r, power[r], power[0]))); break; } }
        }
    }
    res.nontrivial = R >= 2 && out.stats.messages >= 1;
    uint64_t key = sim::hash_combine(gen::digest(A), gen::digest(B)); for (int r = 0; r <= R; ++r) key = sim::hash_combine(key, (uint64_t)(rp[r] * 1000003 + cp[r] * 1009 + kp[r]));
    key = sim::hash_combine(key, (uint64_t)(mc.late_send_read * 4 + mc.recv_poison * 2 + mc.rendezvous)); for (size_t i = 0; i < out.sched.deviations.size() && i < 64; ++i) key = sim::hash_combine(key, out.sched.deviations[i].first * 31 + out.sched.deviations[i].second);
    res.key = key; res.hash = sim::hash_combine(res.hash, vec_digest(y2));
    js::Value s = js::Value::object();
    s.set("ranks", R); s.set("n", n); s.set("m", m); s.set("k", kk); s.set("nt_per_rank", mc.nt);
    js::Value jp = js::Value::array(); for (int r = 0; r <= R; ++r) jp.push(rp[r]); s.set("row_partition", jp);
    js::Value jc = js::Value::array(); for (int r = 0; r <= R; ++r) jc.push(cp[r]); s.set("col_partition", jc);
    s.set("square", (long)square); s.set("conformal_distribution", (long)conformal); s.set("late_send_read", (long)mc.late_send_read); s.set("recv_poison", (long)mc.recv_poison); s.set("rendezvous", (long)mc.rendezvous); s.set("strategy", sim::strategy_name(p.sched.strategy));
    s.set("messages", (unsigned long long)out.stats.messages); s.set("collectives", (unsigned long long)out.stats.collectives);
    res.sample = s;
    return res;
}
