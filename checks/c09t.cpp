// C09, trace flavour: compiled with -fsanitize=thread (callbacks in sim/trace.cpp) and -DAMGSIM_TRACE
#include "c09.cpp"
