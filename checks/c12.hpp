// shared between c12.cpp and c12_blockval.cpp
#ifndef AMGSIM_C12_HPP
#define AMGSIM_C12_HPP
#include <vector>
#include <string>
#include <algorithm>
#include "common.hpp"
namespace c12 {
inline std::vector<long> draw_partition(sim::rng &r, long n, int R, bool allow_empty) {
    std::vector<long> cuts; for (int i = 0; i < R - 1; ++i) cuts.push_back((long)r.below((uint64_t)n + 1));
    std::sort(cuts.begin(), cuts.end());
    std::vector<long> p(1, 0); for (size_t i = 0; i < cuts.size(); ++i) p.push_back(cuts[i]); p.push_back(n);
    if (!allow_empty) { for (int k = 1; k < R; ++k) p[k] = std::max(p[k], p[k-1] + 1); for (int k = R - 1; k >= 1; --k) p[k] = std::min(p[k], p[k+1] - 1); }
    return p;
}
// block-valued (2x2) distributed AMG world: fills the whole result
void blockval_world(const hz::Plan &p, hz::Result &res);
}
#endif
