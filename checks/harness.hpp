// amgsim check harness: plan generation, execution, gate, minimisation, replay files, worker loop.
// Every check binary defines CHECK_ID, generate() and execute() and includes harness_main.hpp once.
#ifndef AMGSIM_HARNESS_HPP
#define AMGSIM_HARNESS_HPP
#include <string>
#include <vector>
#include <map>
#include <set>
#include <cstdio>
#include <cstdlib>
#include <cstring>
#include <cstdint>
#include <stdexcept>
#include "json.hpp"
#include "../sim/rng.hpp"
#include "../sim/sched.hpp"

namespace hz {

struct Param { std::string name; long v; long lo; };          // lo: smallest legal value (shrink target)
struct Op { std::string kind; std::vector<long> a; };

struct Plan {
    uint64_t seed = 0, run = 0;
    std::vector<Param> p;
    std::vector<Op> ops;
    sim::SchedConfig sched;
    size_t min_ops = 0;                     // shrinker never goes below this many ops

    long get(const char *name, long dflt = 0) const {
        for (size_t i = 0; i < p.size(); ++i) if (p[i].name == name) return p[i].v;
        return dflt;
    }
    void set(const char *name, long v, long lo = 0) {
        for (size_t i = 0; i < p.size(); ++i) if (p[i].name == name) { p[i].v = v; p[i].lo = lo; return; }
        Param q; q.name = name; q.v = v; q.lo = lo; p.push_back(q);
    }
    js::Value to_json() const {
        js::Value j = js::Value::object();
        j.set("seed", (unsigned long long)seed); j.set("run", (unsigned long long)run);
        js::Value pj = js::Value::array();
        for (size_t i = 0; i < p.size(); ++i) { js::Value e = js::Value::array(); e.push(p[i].name); e.push(p[i].v); e.push(p[i].lo); pj.push(e); }
        j.set("p", pj);
        js::Value oj = js::Value::array();
        for (size_t i = 0; i < ops.size(); ++i) { js::Value e = js::Value::array(); e.push(ops[i].kind); for (size_t k = 0; k < ops[i].a.size(); ++k) e.push(ops[i].a[k]); oj.push(e); }
        j.set("ops", oj);
        j.set("min_ops", (long)min_ops);
        js::Value s = js::Value::object();
        s.set("strategy", sim::strategy_name(sched.strategy));
        s.set("seed", (unsigned long long)sched.seed);
        s.set("pct_depth", sched.pct_depth); s.set("pct_len", (unsigned long long)sched.pct_len);
        s.set("starve", sched.starve); s.set("preempt_p", sched.preempt_p);
        s.set("max_decisions", (unsigned long long)sched.max_decisions);
        js::Value d = js::Value::array();
        for (size_t i = 0; i < sched.deviations.size(); ++i) { js::Value e = js::Value::array(); e.push((unsigned long long)sched.deviations[i].first); e.push(sched.deviations[i].second); d.push(e); }
        s.set("deviations", d);
        j.set("sched", s);
        return j;
    }
    static Plan from_json(const js::Value &j) {
        Plan pl;
        pl.seed = (uint64_t)j.get_int("seed"); pl.run = (uint64_t)j.get_int("run");
        const js::Value &pj = j.at("p");
        for (size_t i = 0; i < pj.a.size(); ++i) { Param q; q.name = pj.a[i].a[0].as_str(); q.v = (long)pj.a[i].a[1].as_int(); q.lo = (long)pj.a[i].a[2].as_int(); pl.p.push_back(q); }
        const js::Value &oj = j.at("ops");
        for (size_t i = 0; i < oj.a.size(); ++i) { Op o; o.kind = oj.a[i].a[0].as_str(); for (size_t k = 1; k < oj.a[i].a.size(); ++k) o.a.push_back((long)oj.a[i].a[k].as_int()); pl.ops.push_back(o); }
        pl.min_ops = (size_t)j.get_int("min_ops");
        const js::Value &s = j.at("sched");
        pl.sched.strategy = sim::strategy_from_name(s.get_str("strategy"));
        pl.sched.seed = (uint64_t)s.get_int("seed");
        pl.sched.pct_depth = (int)s.get_int("pct_depth", 2); pl.sched.pct_len = (uint64_t)s.get_int("pct_len", 64);
        pl.sched.starve = (int)s.get_int("starve"); const js::Value *pp = s.find("preempt_p"); pl.sched.preempt_p = pp ? pp->as_dbl() : 0;
        pl.sched.max_decisions = (uint64_t)s.get_int("max_decisions", 50000000);
        const js::Value *d = s.find("deviations");
        if (d) for (size_t i = 0; i < d->a.size(); ++i) pl.sched.deviations.push_back(sim::deviation((uint64_t)d->a[i].a[0].as_int(), (int)d->a[i].a[1].as_int()));
        return pl;
    }
};

struct Violation {
    std::string oracle;                               // e.g. "gs-parallel-equals-serial"
    std::vector<std::pair<std::string,std::string> > sig;   // signature fields (component, clause, ...)
    std::string detail;
    void add(const std::string &k, const std::string &v) { sig.push_back(std::make_pair(k, v)); }
    void add(const std::string &k, long v) { char b[32]; snprintf(b, sizeof b, "%ld", v); sig.push_back(std::make_pair(k, std::string(b))); }
    std::string sigval(const std::string &k) const { for (size_t i = 0; i < sig.size(); ++i) if (sig[i].first == k) return sig[i].second; return ""; }
    // class used by the shrinker: the oracle and the signature fields marked as class-defining ("component", "clause")
    std::string klass() const { return oracle + "|" + sigval("component") + "|" + sigval("clause"); }
    js::Value to_json() const {
        js::Value j = js::Value::object(); j.set("oracle", oracle);
        js::Value s = js::Value::object(); for (size_t i = 0; i < sig.size(); ++i) s.set(sig[i].first, sig[i].second);
        j.set("sig", s); j.set("detail", detail); return j;
    }
};

struct Result {
    std::vector<Violation> v;
    bool nontrivial = false;
    uint64_t key = 0;            // identity of the case for "distinct" counting
    uint64_t hash = 0;           // event-log hash: decisions + fault firings + output digests
    uint64_t ticks = 0, micro = 0, switches = 0, worlds = 0;
    std::vector<sim::deviation> deviations;   // taken in the primary world under test
    std::map<std::string,uint64_t> faults;    // fault kind -> times it FIRED
    std::map<std::string,uint64_t> counts;    // free counters (components exercised, ...)
    bool poisoned = false;       // a world was abandoned (deadlock / tick budget): fiber stacks were dropped, the process must not go on
    js::Value sample;            // the case written out
    void fail(const Violation &x) { if (v.size() < 8) v.push_back(x); }
    void absorb(const sim::RunStatus &st) {
        hash = sim::hash_combine(hash, st.hash); ticks += st.points; switches += st.switches; ++worlds;
        if (st.status != sim::ST_OK) poisoned = true;
    }
};

// ---- known findings ---------------------------------------------------------
struct Known {
    std::string property, oracle, what, id;
    std::vector<std::pair<std::string, std::vector<std::string> > > match;
    bool matches(const std::string &prop, const Violation &x) const {
        if (property != prop || oracle != x.oracle) return false;
        for (size_t i = 0; i < match.size(); ++i) {
            std::string have = x.sigval(match[i].first); bool ok = false;
            for (size_t k = 0; k < match[i].second.size(); ++k) if (match[i].second[k] == have) ok = true;
            if (!ok) return false;
        }
        return true;
    }
};
inline std::vector<Known> load_known(const std::string &path) {
    std::vector<Known> r;
    if (path.empty()) return r;
    js::Value j;
    try { j = js::load(path); } catch (...) { return r; }
    const js::Value *f = j.find("findings");
    if (!f) return r;
    for (size_t i = 0; i < f->a.size(); ++i) {
        const js::Value &e = f->a[i];
        if (e.get_str("status") != "known") continue;
        Known k; k.property = e.get_str("property"); k.oracle = e.get_str("oracle"); k.what = e.get_str("what"); k.id = e.get_str("id");
        const js::Value *m = e.find("match");
        if (m) for (size_t q = 0; q < m->o.size(); ++q) {
            std::vector<std::string> vals;
            if (m->o[q].second.t == js::Value::ARR) for (size_t z = 0; z < m->o[q].second.a.size(); ++z) vals.push_back(m->o[q].second.a[z].as_str());
            else vals.push_back(m->o[q].second.as_str());
            k.match.push_back(std::make_pair(m->o[q].first, vals));
        }
        r.push_back(k);
    }
    return r;
}

} // namespace hz

// ---- supplied by each check --------------------------------------------------
extern const char *CHECK_ID;
hz::Plan   generate(uint64_t seed, uint64_t run, bool thorough);
hz::Result execute(const hz::Plan &plan);

#endif
