// C01 — a reported convergence is truthful: residual, iteration count, solution.
// The truthfulness invariant is evaluated on every (iterations, residual) a simulated world returns; the simulator
// dimensions are the thread count (cross-thread reductions inside every inner product, thread-seeded IDR(s) space),
// the schedule, the dirtied heap and the position in a reuse history (a warm-up solve on the same object).
// The convergence clause runs on the narrow diffusion-type model family with forced multilevel hierarchies.
#include "common.hpp"
#include <amgcl/make_solver.hpp>
#include <amgcl/amg.hpp>
#include <amgcl/coarsening/runtime.hpp>
#include <amgcl/relaxation/runtime.hpp>
#include <amgcl/solver/runtime.hpp>
#include <complex>
#include <amgcl/value_type/complex.hpp>
#include <amgcl/value_type/static_matrix.hpp>
#include <amgcl/adapter/block_matrix.hpp>
#include "harness_main.hpp"

const char *CHECK_ID = "C01";
using namespace cm;
using hz::Plan; using hz::Result; using hz::Violation;

typedef amgcl::make_solver<
    amgcl::amg<DBackend, amgcl::runtime::coarsening::wrapper, amgcl::runtime::relaxation::wrapper>,
    amgcl::runtime::solver::wrapper<DBackend> > Solver;
static const char *coarsening_names[] = { "ruge_stuben", "aggregation", "smoothed_aggregation", "smoothed_aggr_emin" };
static const char *relax_names[] = { "gauss_seidel", "ilu0", "iluk", "ilup", "ilut", "damped_jacobi", "spai0", "spai1", "chebyshev" };
static const char *solver_names[] = { "cg", "bicgstab", "bicgstabl", "gmres", "lgmres", "fgmres", "idrs", "richardson" };
static bool has_pside(long s) { return s == 1 || s == 2 || s == 3 || s == 4; }

static __attribute__((noinline)) void dirty_stack_small(int fill) {
    volatile unsigned char buf[96 * 1024];
    for (size_t i = 0; i < sizeof buf; i += 1) buf[i] = (unsigned char)fill;
    asm volatile("" ::: "memory");
}

Plan generate(uint64_t seed, uint64_t run, bool thorough) {
    sim::rng r(seed, "world", run);
    Plan p;
    int model = r.chance(0.45) ? 1 : 0;           // the convergence clause: narrow diffusion-type family, default budget
    p.set("model", model, model);
    int fam;
    if (model) { static const int f[] = { gen::F_GRID2D, gen::F_GRID2D, gen::F_GRID3D, gen::F_GRID1D }; fam = f[r.below(4)]; }
    else { static const int f[] = { gen::F_GRAPH, gen::F_GRID2D, gen::F_CONVDIFF, gen::F_NONSYM_PATTERN, gen::F_GRID3D, gen::F_DISCONNECTED, gen::F_GRID2D_DIRROWS, gen::F_POSITIVE_OFFDIAG, gen::F_DIAGONAL }; fam = f[r.below(9)]; }
    p.set("family", fam, fam);
    p.set("n", model ? r.range(60, thorough ? 900 : 400) : (r.chance(0.6) ? r.range(1, 80) : r.range(40, thorough ? 600 : 300)), model ? 30 : 1);
    p.set("mseed", (long)(r.next() >> 16), 0); p.set("vseed", (long)(r.next() >> 16), 0);
    p.set("contrast", model ? r.range(0, 1) : r.range(0, 3), 0);
    p.set("aniso", (!model && r.chance(0.3)) ? (1L << r.range(1, 5)) : 1, 1);      // the model family is isotropic with contrast <= 8
    p.set("coarsening", r.range(0, 3), 0); p.set("relax", r.range(0, 8), 0); p.set("solver", r.range(0, 7), 0);
    p.set("pside", r.range(0, 1), 0);
    p.set("coarse_enough", model ? r.range(1, 100) : r.range(1, 40), 1);
    p.set("npre", model ? 1 : r.range(1, 2), 1); p.set("ncycle", model ? 1 : r.range(1, 2), 1);
    p.set("maxiter", model ? 100 : (r.chance(0.3) ? r.range(1, 12) : 100), model ? 100 : 1);     // (lower bounds: the shrinker must not leave the model clause's premises)
    p.set("tol_exp", model ? 8 : r.range(3, 9), model ? 8 : 3);
    p.set("x0", (!model && r.chance(0.1)) ? 2 : r.range(0, 1), 0);               // 0: zero, 1: random, 2: large
    p.set("rhs_kind", r.range(0, 2), 0);
    p.set("warmup", r.range(0, 1), 0);           // reuse history: a solve with another right-hand side first
    p.set("L", r.range(1, 4), 1); p.set("M", r.chance(0.5) ? r.range(2, 10) : 30, 2); p.set("s", r.range(1, 6), 1);
    static const long nts[] = { 1, 1, 2, 3, 4, 5, 8, 16, 17, 32 };
    p.set("nt", nts[r.below(10)], 1);
    if (p.get("nt") > 8 && !model && p.get("maxiter") > 40) p.set("maxiter", 40, 1);
    draw_schedule(r, p.sched, (int)p.get("nt"));
    draw_vary_params(r, p, 0.5);
    p.set("nested", r.chance(0.2) ? 1 : 0, 0);
    p.set("alt", r.chance(0.2) ? 1 : 0, 0);
    p.set("valued", (!model && r.chance(0.2)) ? r.range(1, 2) : 0, 0);      // complex / 2x2 block valued system
    if (p.get("valued") && p.get("n") > 160) p.set("n", 160, 1);
    return p;
}

Result execute(const Plan &p);

// ---- complex and 2x2-block valued systems: the same truthfulness / budget clauses in the value type's own algebra ---------------
template <class V> struct vkind;
template <> struct vkind<std::complex<double> > { static const char* name() { return "complex"; } enum { B = 1 };
    static std::shared_ptr<amgcl::backend::crs<std::complex<double> > > matrix(const gen::Csr &G, uint64_t seed, bool hermitian) {
        auto M = std::make_shared<amgcl::backend::crs<std::complex<double> > >(); M->set_size(G.n, G.n, false); for (long i = 0; i <= G.n; ++i) M->ptr[i] = G.ptr[i]; M->set_nonzeros(G.nnz());
        for (long i = 0; i < G.n; ++i) for (ptrdiff_t j = G.ptr[i]; j < G.ptr[i+1]; ++j) { long c = G.col[j]; M->col[j] = c; long lo = std::min(i, c), hi = std::max(i, c); uint64_t h = sim::hash_combine((uint64_t)lo * 2654435761u + (uint64_t)hi, seed);
            double im = c == i ? 0.0 : G.val[j] * ((double)((long)(h % 9) - 4) / 16.0); if (hermitian && c < i) im = -im; if (!hermitian && c < i) im = im * 0.5 + G.val[j] / 32.0;
            M->val[j] = std::complex<double>(G.val[j], im); }
        return M; }
    static std::complex<double> rhs(double a, double b) { return std::complex<double>(a, b); } };
template <> struct vkind<amgcl::static_matrix<double,2,2> > { static const char* name() { return "block2x2"; } enum { B = 2 };
    static std::shared_ptr<amgcl::backend::crs<amgcl::static_matrix<double,2,2> > > matrix(const gen::Csr &G, uint64_t, bool) {
        typedef amgcl::static_matrix<double,2,2> BV; if (G.n % 2 || G.n < 2) return std::shared_ptr<amgcl::backend::crs<BV> >();
        gen::Csr Gc = G; auto As = to_crs(Gc); amgcl::backend::sort_rows(*As); return std::make_shared<amgcl::backend::crs<BV> >(amgcl::adapter::block_matrix<BV>(*As)); }
    static amgcl::static_matrix<double,2,1> rhs(double a, double b) { amgcl::static_matrix<double,2,1> r; r(0) = a; r(1) = b; return r; } };

template <class V>
static Result execute_valued(const Plan &p) {
    namespace m = amgcl::math;
    typedef amgcl::backend::builtin<V> VB; typedef typename m::rhs_of<V>::type RV;
    typedef amgcl::make_solver< amgcl::amg<VB, amgcl::runtime::coarsening::wrapper, amgcl::runtime::relaxation::wrapper>, amgcl::runtime::solver::wrapper<VB> > VSolver;
    Result res;
    gen::Csr G = gen::make_matrix((int)p.get("family"), p.get("n"), (uint64_t)p.get("mseed"), (int)p.get("contrast"), (int)p.get("aniso"));
    long coarsening = 1 + p.get("coarsening") % 3, relax = p.get("relax"), solver = p.get("solver");      // Ruge-Stuben is for scalar values only
    bool hermitian = (p.get("vseed") & 1) != 0;
    auto Av = vkind<V>::matrix(G, (uint64_t)p.get("mseed"), hermitian);
    if (!Av) { Plan q = p; q.set("valued", 0, 0); return execute(q); }
    const long n = (long)Av->nrows; int nt = (int)p.get("nt");
    bool left = has_pside(solver) && p.get("pside") == 0;
    double tol = std::pow(10.0, -(double)p.get("tol_exp")); long maxiter = p.get("maxiter"), L = p.get("L");
    auto sig = [&](const char *oracle, const char *clause, const std::string &detail) {
        Violation v; v.oracle = oracle; v.add("component", "make_solver"); v.add("clause", clause); v.add("coarsening", coarsening_names[coarsening]); v.add("relax", relax_names[relax]); v.add("solver", solver_names[solver]);
        v.add("pside", has_pside(solver) ? (left ? "left" : "right") : "n/a"); v.add("family", gen::family_name((int)p.get("family"))); v.add("values", vkind<V>::name()); v.detail = detail; return v; };
    boost::property_tree::ptree prm;
    prm.put("precond.coarsening.type", coarsening_names[coarsening]); prm.put("precond.relax.type", relax_names[relax]);
    prm.put("precond.coarse_enough", std::max<long>(1, p.get("coarse_enough") / vkind<V>::B)); prm.put("precond.npre", p.get("npre")); prm.put("precond.npost", p.get("npre")); prm.put("precond.ncycle", p.get("ncycle"));
    if (p.get("ncycle") > 1) prm.put("precond.max_levels", 4);
    prm.put("solver.type", solver_names[solver]); prm.put("solver.maxiter", maxiter); prm.put("solver.tol", tol);
    if (has_pside(solver)) prm.put("solver.pside", left ? "left" : "right");
    if (solver == 2) prm.put("solver.L", L);
    if (solver == 3 || solver == 4 || solver == 5) prm.put("solver.M", p.get("M"));
    if (solver == 6) prm.put("solver.s", p.get("s"));
    std::vector<double> a = gen::make_vector(n, (uint64_t)p.get("vseed"), (int)p.get("rhs_kind")), b = gen::make_vector(n, (uint64_t)p.get("vseed") + 3, 0), c = gen::make_vector(n, (uint64_t)p.get("vseed") + 9, 0), d = gen::make_vector(n, (uint64_t)p.get("vseed") + 11, 0);
    std::vector<RV> f(n), x(n, m::zero<RV>()), f2(n);
    for (long i = 0; i < n; ++i) { f[i] = vkind<V>::rhs(a[i], b[i]); f2[i] = vkind<V>::rhs(c[i], d[i]); }
    if (p.get("x0") >= 1) { std::vector<double> e = gen::make_vector(n, (uint64_t)p.get("vseed") + 5, 0); for (long i = 0; i < n; ++i) x[i] = vkind<V>::rhs(e[i], -0.5 * e[i]); }
    auto vnorm = [&](const std::vector<RV> &v) { long double s2 = 0; for (long i = 0; i < n; ++i) s2 += (long double)m::norm(m::inner_product(v[i], v[i])); return (double)std::sqrt((double)s2); };
    auto vinf = [&](const std::vector<RV> &v) { double s2 = 0; for (long i = 0; i < n; ++i) s2 = std::max(s2, (double)m::norm(v[i])); return s2; };
    auto resid_of = [&](const std::vector<RV> &rhs, const std::vector<RV> &y, std::vector<RV> &r) { for (long i = 0; i < n; ++i) { RV t = rhs[i]; for (ptrdiff_t j = Av->ptr[i]; j < Av->ptr[i+1]; ++j) t -= Av->val[j] * y[Av->col[j]]; r[i] = t; } };
    double x0inf = vinf(x), pamp = 1, plin = 0, pnrm = 1, pnorm = 0;
    size_t iters = 0; double resid = 0; std::string exc; bool constructed = false;
    sim::RunStatus st = world(nt, p.sched, [&]() {
        try {
            VSolver S(*Av, prm); constructed = true;
            if (p.get("warmup")) { std::vector<RV> y(n, m::zero<RV>()); try { S(f2, y); } catch (const std::exception &) {} res.faults["warmup_solve_on_same_object"]++; }
            std::tie(iters, resid) = S(f, x);
            std::vector<RV> u(n), ug(n), uh(n), h(n), t(n), z(n, m::zero<RV>());
            S.precond().apply(f, u); S.precond().apply(f2, ug);
            for (long i = 0; i < n; ++i) h[i] = 2.0 * f[i] - 0.5 * f2[i];
            S.precond().apply(h, uh);
            auto amp = [&](const std::vector<RV> &rhs, const std::vector<RV> &pu) { resid_of(z, pu, t); double w = vinf(t), fi = vinf(rhs); return (w == w && fi > 0) ? std::max(1.0, w / fi) : std::numeric_limits<double>::infinity(); };
            pamp = std::max(amp(f, u), amp(f2, ug));
            double sc = std::max(vinf(u), vinf(ug)), er = 0; for (long i = 0; i < n; ++i) { RV dlt = uh[i] - (2.0 * u[i] - 0.5 * ug[i]); er = std::max(er, (double)m::norm(dlt)); }
            plin = (sc > 0 && er == er) ? er / sc : std::numeric_limits<double>::infinity(); pnrm = vinf(f) > 0 ? vinf(u) / vinf(f) : 1;
            if (left) { std::vector<RV> r(n), pr(n); resid_of(f, x, r); S.precond().apply(r, pr); pnorm = vnorm(pr); }
        } catch (const std::exception &e) { exc = e.what(); }
    });
    res.absorb(st); res.deviations = st.deviations;
    if (st.status) res.fail(sig("world-terminates", "deadlock-or-budget", st.blocked));
    std::vector<RV> r(n); resid_of(f, x, r);
    double fnorm = vnorm(f), rstar = left ? pnorm / fnorm : vnorm(r) / (fnorm > 0 ? fnorm : 1), xinf = vinf(x), finf = vinf(f), ainf = 0;
    for (long i = 0; i < n; ++i) { double rs = 0; for (ptrdiff_t j = Av->ptr[i]; j < Av->ptr[i+1]; ++j) rs += (double)m::norm(Av->val[j]); ainf = std::max(ainf, rs); }
    bool x_finite = std::isfinite(xinf);
    res.hash = sim::hash_combine(res.hash, sim::hash_bytes(x.data(), x.size() * sizeof(RV))); res.hash = sim::hash_combine(res.hash, (uint64_t)iters);
    res.counts["solves_checked"]++; res.counts[std::string("valued_") + vkind<V>::name()]++;
    if (exc.empty() && constructed && fnorm > 0) {
        long maxrow = 1; for (long i = 0; i < n; ++i) maxrow = std::max<long>(maxrow, Av->ptr[i+1] - Av->ptr[i]);
        double delta = 400.0 * (iters + 1) * 3.0 * (maxrow + 1) * vkind<V>::B * 1.2e-16 * (ainf * std::max(xinf, x0inf) / (finf > 0 ? finf : 1) + 1);
        delta *= pamp; delta += 100 * plin * (1 + ainf * std::max(xinf, x0inf) / (finf > 0 ? finf : 1) + pnrm); if (left) delta *= 100;
        bool usable = x_finite && delta < 0.1 * tol;
        long slack = solver == 2 ? L - 1 : 0;
        if ((long)iters > maxiter + slack) res.fail(sig("iteration-budget", "iters<=maxiter", fmt("%zu iterations with maxiter %ld (L=%ld)", iters, maxiter, L)));
        if (!x_finite || !std::isfinite(rstar)) { if (std::isfinite(resid) && resid < 1) res.fail(sig("truthful-residual", "nonfinite-solution-reported-finite", fmt("x or its residual is not finite but the solver reports %.3g after %zu iterations", resid, iters))); res.counts["nonfinite_outcomes"]++; }
        else if (usable) {
            if (std::isfinite(resid)) {
                if (resid < tol && !(rstar < 1.05 * tol + delta)) res.fail(sig("truthful-residual", "reported-converged-but-is-not", fmt("reported %.6g < tol %.3g after %zu iterations, true relative residual %.6g (delta %.3g, nt %d)", resid, tol, iters, rstar, delta, nt)));
                else if (resid < tol && rstar < tol) { }
                else if (!(std::fabs(resid - rstar) <= 0.05 * std::max(resid, rstar) + delta)) res.fail(sig("truthful-residual", "reported-differs-from-true", fmt("reported %.6g, true %.6g after %zu iterations (delta %.3g, tol %.3g)", resid, rstar, iters, delta, tol)));
            } else res.fail(sig("truthful-residual", "finite-solution-reported-nonfinite", fmt("solution is finite with true residual %.3g but the solver reports a non-finite one", rstar)));
            res.counts["truthfulness_evaluated"]++;
        } else res.counts["skipped_ill_conditioned_for_tolerance"]++;
    } else if (!exc.empty()) res.counts["solver_threw"]++;
    res.nontrivial = iters >= 1 && exc.empty();
    res.key = sim::hash_combine(gen::digest(G), (uint64_t)(coarsening * 100003 + relax * 1009 + solver * 101 + (left ? 7 : 0) + nt * 13 + 1000003 * vkind<V>::B)); res.key = sim::hash_combine(res.key, (uint64_t)(p.get("vseed") ^ (p.get("maxiter") * 31 + p.get("tol_exp"))));
    js::Value s = js::Value::object();
    s.set("values", vkind<V>::name()); s.set("hermitian_part", (long)hermitian); s.set("family", gen::family_name((int)p.get("family"))); s.set("n", n); s.set("coarsening", coarsening_names[coarsening]); s.set("relax", relax_names[relax]); s.set("solver", solver_names[solver]);
    s.set("pside", has_pside(solver) ? (left ? "left" : "right") : "n/a"); s.set("nt", nt); s.set("iters", (long)iters); s.set("reported", resid); s.set("true", rstar);
    res.sample = s;
    return res;
}

Result execute(const Plan &p) {
    if (p.get("valued", 0) == 1 && !p.get("model")) return execute_valued<std::complex<double> >(p);
    if (p.get("valued", 0) == 2 && !p.get("model")) return execute_valued<amgcl::static_matrix<double,2,2> >(p);
    Result res;
    bool model = p.get("model") != 0;
    gen::Csr A = gen::make_matrix((int)p.get("family"), p.get("n"), (uint64_t)p.get("mseed"), (int)p.get("contrast"), (int)p.get("aniso"));
    const long n = A.n; int nt = (int)p.get("nt");
    long coarsening = p.get("coarsening"), relax = p.get("relax"), solver = p.get("solver");
    bool left = has_pside(solver) && p.get("pside") == 0;
    double tol = std::pow(10.0, -(double)p.get("tol_exp"));
    long maxiter = p.get("maxiter"), L = p.get("L");
    auto sig = [&](const char *oracle, const char *clause, const std::string &detail) {
        Violation v; v.oracle = oracle; v.add("component", "make_solver"); v.add("clause", clause); v.add("coarsening", coarsening_names[coarsening]); v.add("relax", relax_names[relax]); v.add("solver", solver_names[solver]);
        v.add("pside", has_pside(solver) ? (left ? "left" : "right") : "n/a"); v.add("family", gen::family_name((int)p.get("family"))); v.detail = detail; return v; };
    boost::property_tree::ptree prm;
    prm.put("precond.coarsening.type", coarsening_names[coarsening]); prm.put("precond.relax.type", relax_names[relax]);
    prm.put("precond.coarse_enough", p.get("coarse_enough")); prm.put("precond.npre", p.get("npre")); prm.put("precond.npost", p.get("npre")); prm.put("precond.ncycle", p.get("ncycle"));
    if (p.get("ncycle") > 1) prm.put("precond.max_levels", 4);
    prm.put("solver.type", solver_names[solver]); prm.put("solver.maxiter", maxiter); prm.put("solver.tol", tol);
    if (has_pside(solver)) prm.put("solver.pside", left ? "left" : "right");
    if (!model) {      // the model clause speaks about the default budget: default restart lengths there
        if (solver == 2) prm.put("solver.L", L);
        if (solver == 3 || solver == 4 || solver == 5) prm.put("solver.M", p.get("M"));
        if (solver == 6) prm.put("solver.s", p.get("s"));
    } else L = 2;
    // non-model worlds: seeded variation of the remaining component parameters (explicit L / M / s above win)
    std::string varied;
    if (!model) { boost::property_tree::ptree tmp; varied = apply_vary_params(p, tmp, "precond.coarsening.", coarsening_names[coarsening], "precond.relax.", relax_names[relax], "solver.", solver_names[solver], true);
        apply_vary_params(p, prm, "precond.coarsening.", coarsening_names[coarsening], "precond.relax.", relax_names[relax], "solver.", solver_names[solver], true);
        if (solver == 2) { L = prm.get("solver.L", L); } }
    std::vector<double> f = gen::make_vector(n, (uint64_t)p.get("vseed"), (int)p.get("rhs_kind")), x(n, 0.0), f2 = gen::make_vector(n, (uint64_t)p.get("vseed") + 9, 0);
    if (p.get("x0") == 1) x = gen::make_vector(n, (uint64_t)p.get("vseed") + 5, 0);
    if (p.get("x0") == 2) { x = gen::make_vector(n, (uint64_t)p.get("vseed") + 5, 0); for (long i = 0; i < n; ++i) x[i] *= 1e6; }
    double x0inf = max_abs(x), pamp = 1, plin = 0, pnrm = 1;
    size_t iters = 0; double resid = 0; std::string exc; size_t nlevels = 0; std::vector<double> pr(n, 0.0); double pnorm = 0; bool constructed = false;
    // a fifth of the multi-threaded non-model worlds run the whole construct/solve from a thread of the caller's own parallel region:
    // nested regions are serialised (every OpenMP runtime's default), the library's teams have one member while
    // omp_get_max_threads() still reports nt - a legal situation in which the reported residual must still be the true one
    const bool nested = p.get("nested", 0) != 0 && nt >= 2 && !model;
    const bool alt = p.get("alt", 0) != 0 && !model;
    if (alt) res.counts["solve_with_passed_matrix_worlds"]++;
    if (nested) { res.counts["nested_caller_worlds"]++; res.faults["team_smaller_than_max_threads"]++; }
    auto body = [&]() {
        try {
            // "alt": the bundle is built for a neighbouring matrix (diagonal times 1.25) and the system is handed over through the
            // documented overload solve(A, rhs, x) - the reported residual must be that of the matrix passed, not of the one built for
            gen::Csr Ac = A; if (alt) for (long i = 0; i < Ac.n; ++i) for (ptrdiff_t j = Ac.ptr[i]; j < Ac.ptr[i+1]; ++j) if (Ac.col[j] == i) Ac.val[j] *= 1.25;
            Solver S(Ac.tie(), prm); constructed = true;
            { std::ostringstream os; os << S.precond(); std::string t = os.str(); size_t pos = t.find("Number of levels:"); if (pos != std::string::npos) nlevels = (size_t)atoi(t.c_str() + pos + 17); }
            if (p.get("warmup")) { std::vector<double> y(n, 0.0); try { S(f2, y); } catch (const std::exception &) {} res.faults["warmup_solve_on_same_object"]++; }
            if (alt) { auto Acrs = to_crs(A); std::tie(iters, resid) = S(*Acrs, f, x); } else std::tie(iters, resid) = S(f, x);
            {   // how much the preconditioned operator amplifies: |A P f| / |f| (the conditioning of the call, not only of A)
                std::vector<double> u(n, 0.0); S.precond().apply(f, u); double w = 0, fi = 0;
                for (long i = 0; i < n; ++i) { long double t = 0; for (ptrdiff_t j = A.ptr[i]; j < A.ptr[i+1]; ++j) t += (long double)A.val[j] * u[A.col[j]]; w = std::max(w, std::fabs((double)t)); fi = std::max(fi, std::fabs(f[i])); }
                pamp = (w == w && fi > 0) ? std::max(1.0, w / fi) : std::numeric_limits<double>::infinity();
                // numerical consistency of the preconditioner itself: a cycle through a nearly singular coarse operator is linear
                // only up to its own rounding amplification, and no residual recurrence can be more accurate than that
                std::vector<double> g = f2, h(n), ug(n, 0.0), uh(n, 0.0);
                for (long i = 0; i < n; ++i) h[i] = 2 * f[i] - 0.5 * g[i];
                S.precond().apply(g, ug); S.precond().apply(h, uh);
                {   // the amplification is a property of the preconditioned operator, not of this right-hand side: probe with the random vector too
                    double wg = 0, gi = 0; for (long i = 0; i < n; ++i) { long double t = 0; for (ptrdiff_t j = A.ptr[i]; j < A.ptr[i+1]; ++j) t += (long double)A.val[j] * ug[A.col[j]]; wg = std::max(wg, std::fabs((double)t)); gi = std::max(gi, std::fabs(g[i])); }
                    double pg = (wg == wg && gi > 0) ? std::max(1.0, wg / gi) : std::numeric_limits<double>::infinity(); pamp = std::max(pamp, pg); }
                double sc = 0, er = 0; for (long i = 0; i < n; ++i) { sc = std::max(sc, std::max(std::fabs(u[i]), std::fabs(ug[i]))); er = std::max(er, std::fabs(uh[i] - (2 * u[i] - 0.5 * ug[i]))); }
                plin = (sc > 0 && er == er) ? er / sc : std::numeric_limits<double>::infinity();
                pnrm = fi > 0 ? max_abs(u) / fi : 1;
            }
            if (left) {   // the preconditioned true residual, with the same preconditioner object
                std::vector<double> r(n); for (long i = 0; i < n; ++i) { long double t = f[i]; for (ptrdiff_t j = A.ptr[i]; j < A.ptr[i+1]; ++j) t -= (long double)A.val[j] * x[A.col[j]]; r[i] = (double)t; }
                S.precond().apply(r, pr); long double s2 = 0; for (long i = 0; i < n; ++i) s2 += (long double)pr[i] * pr[i]; pnorm = (double)std::sqrt((double)s2);
            }
        } catch (const std::exception &e) { exc = e.what(); }
    };
    sim::RunStatus st = world(nt, p.sched, [&]() {
        if (!nested) { body(); return; }
        #pragma omp parallel
        { if (omp_get_thread_num() == omp_get_num_threads() - 1) { dirty_stack_small(0x7f); body(); } }      // stale stack content: huge finite doubles
    });
    res.absorb(st); res.deviations = st.deviations;
    if (st.status) res.fail(sig("world-terminates", "deadlock-or-budget", st.blocked));
    // independent long-double residual from the caller's own arrays
    long double rr = 0, ff = 0, xinf = 0, ainf = 0, finf = 0;
    for (long i = 0; i < n; ++i) { long double t = f[i], rs = 0; for (ptrdiff_t j = A.ptr[i]; j < A.ptr[i+1]; ++j) { t -= (long double)A.val[j] * x[A.col[j]]; rs += std::fabs((long double)A.val[j]); } rr += t * t; ff += (long double)f[i] * f[i]; xinf = std::max(xinf, (long double)std::fabs(x[i])); ainf = std::max(ainf, rs); finf = std::max(finf, (long double)std::fabs(f[i])); }
    double fnorm = (double)std::sqrt((double)ff);
    double rstar = left ? pnorm / fnorm : (double)std::sqrt((double)(rr / (ff > 0 ? ff : 1)));
    bool x_finite = std::isfinite((double)xinf);
    res.hash = sim::hash_combine(res.hash, vec_digest(x)); res.hash = sim::hash_combine(res.hash, (uint64_t)iters);
    res.counts["solves_checked"]++;
    if (exc.empty() && constructed && fnorm > 0) {
        // floor below which the comparison is rounding: loss of accuracy in forming f - A x (and its recurrence)
        // (the initial guess enters too: r0 = f - A x0 carries an absolute error u*|A|*|x0| through every recurrence)
        long maxrow = 1; for (long i = 0; i < n; ++i) maxrow = std::max<long>(maxrow, A.ptr[i+1] - A.ptr[i]);
        // the gap between a recursively updated and the true residual grows with the number of updates and with the length of the
        // rows of A (the accumulations of one spmv), not with n (Greenbaum 1997); factor 3 on top (0 violations in 120 000 solves at 1)
        double nn = 3.0 * (double)(maxrow + 1);
        double delta = (double)(200.0L * (iters + 1) * nn * 1.2e-16L * (ainf * std::max(xinf, (long double)x0inf) / (finf > 0 ? finf : 1) + 1));
        delta *= pamp;                           // a preconditioner that amplifies by 1e6 costs six digits
        delta += 100 * plin * (double)(1 + ainf * std::max(xinf, (long double)x0inf) / (finf > 0 ? finf : 1) + pnrm);     // measured linearity defect of P
        if (left) delta *= 100;                  // one extra application of a possibly ill-conditioned preconditioner
        bool usable = x_finite && delta < 0.1 * tol;
        long slack = solver == 2 ? L - 1 : 0;
        if (solver == 3 || solver == 4 || solver == 5) slack = 0;
        if ((long)iters > maxiter + slack) res.fail(sig("iteration-budget", "iters<=maxiter", fmt("%zu iterations with maxiter %ld (L=%ld)", iters, maxiter, L)));
        if (!x_finite || !std::isfinite(rstar)) {
            if (std::isfinite(resid) && resid < 1) res.fail(sig("truthful-residual", "nonfinite-solution-reported-finite", fmt("x or its residual is not finite but the solver reports %.3g after %zu iterations", resid, iters)));
            res.counts["nonfinite_outcomes"]++;
        } else if (usable) {
            if (std::isfinite(resid)) {
                if (resid < tol && !(rstar < 1.05 * tol + delta)) res.fail(sig("truthful-residual", "reported-converged-but-is-not", fmt("reported %.6g < tol %.3g after %zu iterations, true relative residual %.6g (delta %.3g, %zu levels, nt %d)", resid, tol, iters, rstar, delta, nlevels, nt)));
                else if (resid < tol && rstar < tol) { /* both below the requested tolerance: solved to that tolerance, the remaining difference is rounding */ }
                else if (!(std::fabs(resid - rstar) <= 0.05 * std::max(resid, rstar) + delta)) res.fail(sig("truthful-residual", "reported-differs-from-true", fmt("reported %.6g, true %.6g after %zu iterations (delta %.3g, tol %.3g)", resid, rstar, iters, delta, tol)));
            } else res.fail(sig("truthful-residual", "finite-solution-reported-nonfinite", fmt("solution is finite with true residual %.3g but the solver reports a non-finite one", rstar)));
            res.counts["truthfulness_evaluated"]++;
        } else res.counts["skipped_ill_conditioned_for_tolerance"]++;
        if (model && nlevels >= 1) {
            res.counts["model_problems"]++;
            // Richardson is only promised to converge at the cycle's contraction rate, the Krylov methods to reach the tolerance
            if (solver == 7 ? !(resid < 0.1) : (!(resid < tol) || iters >= 100)) { Violation mv = sig("model-convergence", solver == 7 ? "richardson-converges" : "converges-within-default-budget", fmt("%zu iterations, reported residual %.3g (n=%ld, %zu levels, nt %d)", iters, resid, n, nlevels, nt));
                mv.add("outcome", std::isfinite(resid) ? "finite" : "nonfinite"); res.fail(mv); }
        }
    } else if (!exc.empty()) { res.counts["solver_threw"]++; if (model) res.fail(sig("model-convergence", "threw-on-model-problem", exc)); }
    res.nontrivial = iters >= 1 && exc.empty();
    if (nlevels >= 2) res.counts["multilevel"]++;
    res.key = sim::hash_combine(gen::digest(A), (uint64_t)(coarsening * 100003 + relax * 1009 + solver * 101 + (left ? 7 : 0) + nt * 13)); res.key = sim::hash_combine(res.key, (uint64_t)(p.get("vseed") ^ (p.get("maxiter") * 31 + p.get("tol_exp"))));
    js::Value s = js::Value::object();
    s.set("family", gen::family_name((int)p.get("family"))); s.set("n", n); s.set("coarsening", coarsening_names[coarsening]); s.set("relax", relax_names[relax]); s.set("solver", solver_names[solver]);
    s.set("pside", has_pside(solver) ? (left ? "left" : "right") : "n/a"); s.set("levels", (long)nlevels); s.set("nt", nt); s.set("strategy", sim::strategy_name(p.sched.strategy)); s.set("warmup_solve", p.get("warmup"));
    if (!varied.empty()) { s.set("varied_parameters", varied); res.counts["varied_parameter_worlds"]++; }
    s.set("iters", (long)iters); s.set("reported", resid); s.set("true", rstar); s.set("model_family", (long)model);
    res.sample = s;
    return res;
}
