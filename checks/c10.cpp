// C10 — outputs are a function of the inputs only; no memory errors on valid input.
// The same world (valid input incl. the degenerate ones, configuration, pre-history) is executed under several
// simulated heaps (fill pattern x recycling x address shift); complete outputs must be bitwise identical, the
// allocator ledger must balance.  The asan flavour runs the same worlds under ASan/UBSan/LSan.
#include "common.hpp"
#include "../sim/alloc.hpp"
#include <amgcl/make_solver.hpp>
#include <amgcl/amg.hpp>
#include <amgcl/coarsening/runtime.hpp>
#include <amgcl/relaxation/runtime.hpp>
#include <amgcl/solver/runtime.hpp>
#include <amgcl/relaxation/as_preconditioner.hpp>
#include <amgcl/preconditioner/dummy.hpp>
#include <amgcl/adapter/zero_copy.hpp>
#include <amgcl/adapter/reorder.hpp>
#include <amgcl/solver/skyline_lu.hpp>
#include "c10.hpp"
#include "harness_main.hpp"

#if defined(__SANITIZE_ADDRESS__)
extern "C" __attribute__((used)) const char* __asan_default_options() { return "exitcode=77:detect_leaks=0"; }
#endif
const char *CHECK_ID = "C10";
using namespace cm;
using hz::Plan; using hz::Result; using hz::Violation;

typedef amgcl::make_solver<
    amgcl::amg<DBackend, amgcl::runtime::coarsening::wrapper, amgcl::runtime::relaxation::wrapper>,
    amgcl::runtime::solver::wrapper<DBackend> > RtSolver;
typedef amgcl::make_solver<
    amgcl::relaxation::as_preconditioner<DBackend, amgcl::runtime::relaxation::wrapper>,
    amgcl::runtime::solver::wrapper<DBackend> > RelaxSolver;

static const char *coarsening_names[] = { "ruge_stuben", "aggregation", "smoothed_aggregation", "smoothed_aggr_emin" };
static const char *relax_names[] = { "gauss_seidel", "ilu0", "iluk", "ilup", "ilut", "damped_jacobi", "spai0", "spai1", "chebyshev" };
static const char *solver_names[] = { "cg", "bicgstab", "bicgstabl", "gmres", "lgmres", "fgmres", "idrs", "richardson", "preonly" };
enum { K_AMG = 0, K_RELAX = 1, K_ZEROCOPY = 2, K_SKYLINE = 3, K_BLOCK = 4, K_COMPLEX = 5, NKIND = 6 };
static const char *kind_names[] = { "amg", "relax_as_precond", "zero_copy_amg", "skyline_lu", "block2x2_amg", "complex_amg" };

using c10::Out;

static __attribute__((noinline)) void dirty_stack(int fill) {
    volatile unsigned char buf[192 * 1024];
    for (size_t i = 0; i < sizeof buf; i += 1) buf[i] = (unsigned char)fill;
    asm volatile("" ::: "memory");
}

static __attribute__((noinline)) void dirty_stack_small(int fill) {
    volatile unsigned char buf[96 * 1024];
    for (size_t i = 0; i < sizeof buf; i += 1) buf[i] = (unsigned char)fill;
    asm volatile("" ::: "memory");
}

static void run_one(const Plan &p, const gen::Csr &A0, const std::vector<double> &rhs, Out &o) {
    namespace pt = boost::property_tree;
    long kind = p.get("kind");
    gen::Csr A = A0;
    const long n = A.n;
    try {
        pt::ptree prm;
        prm.put("solver.type", solver_names[p.get("solver")]);
        if (p.get("solver") != 8) prm.put("solver.maxiter", p.get("maxiter"));
        if (kind == K_BLOCK || kind == K_COMPLEX) {
            // block / complex valued hierarchy and solve (second translation unit); Ruge-Stuben is for scalar values only
            long cs = 1 + p.get("coarsening") % 3;
            prm.put("precond.coarsening.type", coarsening_names[cs]); prm.put("precond.relax.type", relax_names[p.get("relax")]);
            prm.put("precond.coarse_enough", std::max<long>(1, p.get("coarse_enough") / (kind == K_BLOCK ? 2 : 1)));
            prm.put("precond.max_levels", p.get("ncycle") > 1 ? std::min<long>(p.get("max_levels"), 6) : p.get("max_levels"));
            prm.put("precond.direct_coarse", p.get("direct_coarse") != 0);
            prm.put("precond.npre", p.get("npre")); prm.put("precond.npost", p.get("npost")); prm.put("precond.ncycle", p.get("ncycle")); prm.put("precond.pre_cycles", p.get("pre_cycles"));
            apply_vary_params(p, prm, "precond.coarsening.", coarsening_names[cs], "precond.relax.", relax_names[p.get("relax")], "solver.", solver_names[p.get("solver")], true);
            if (kind == K_BLOCK && n % 2 == 0 && n >= 2) c10::run_block_world(p, prm, A, rhs, o); else c10::run_complex_world(p, prm, A, rhs, o);
            return;
        }
        if (kind == K_AMG || kind == K_ZEROCOPY) {
            prm.put("precond.coarsening.type", coarsening_names[p.get("coarsening")]);
            prm.put("precond.relax.type", relax_names[p.get("relax")]);
            prm.put("precond.coarse_enough", p.get("coarse_enough"));
            prm.put("precond.max_levels", p.get("ncycle") > 1 ? std::min<long>(p.get("max_levels"), 6) : p.get("max_levels"));   // a W-cycle over a deep hierarchy costs 2^levels
            prm.put("precond.direct_coarse", p.get("direct_coarse") != 0);
            prm.put("precond.npre", p.get("npre")); prm.put("precond.npost", p.get("npost")); prm.put("precond.ncycle", p.get("ncycle"));
            prm.put("precond.pre_cycles", p.get("pre_cycles"));
            if (p.get("coarsening") != 0 && p.get("block_size") > 1 && n % p.get("block_size") == 0) prm.put("precond.coarsening.aggr.block_size", p.get("block_size"));
            // near-null-space vectors (aggregation-type coarsenings): [1, x, x^2 ...] in row-major order
            std::vector<double> nsB;
            long nscols = p.get("coarsening") != 0 ? p.get("nullspace") : 0;
            if (nscols > 0) {
                nsB.resize((size_t)n * nscols);
                for (long i = 0; i < n; ++i) for (long c = 0; c < nscols; ++c) nsB[i * nscols + c] = c == 0 ? 1.0 : std::pow((double)(i + 1) / n, (double)c);
                prm.put("precond.coarsening.nullspace.cols", nscols);
                prm.put("precond.coarsening.nullspace.rows", n);
                prm.put("precond.coarsening.nullspace.B", nsB.data());
            }
            apply_vary_params(p, prm, "precond.coarsening.", coarsening_names[p.get("coarsening")], "precond.relax.", relax_names[p.get("relax")], "solver.", solver_names[p.get("solver")], true);
            std::vector<double> x(n, 0.0), u(n, 0.0);
            size_t it; double res;
            if (kind == K_AMG) {
                RtSolver S(A.tie(), prm);
                std::ostringstream os; os << S.precond(); o.text = os.str();
                S.precond().apply(rhs, u);
                std::tie(it, res) = S(rhs, x);
            } else {
                // zero-copy adapter: the library must neither copy nor free the user's arrays
                std::vector<ptrdiff_t> ptr(A.ptr), col(A.col); std::vector<double> val(A.val);
                long variant = p.get("vseed") & 3;
                std::vector<int> iptr(ptr.begin(), ptr.end()), icol(col.begin(), col.end());
                auto Z = amgcl::adapter::zero_copy((size_t)n, ptr.data(), col.data(), val.data());
                auto Zd = amgcl::adapter::zero_copy_direct((size_t)n, ptr.data(), col.data(), val.data());
                auto Zi = amgcl::adapter::zero_copy_direct((size_t)n, iptr.data(), icol.data(), val.data());       // int indices: a view the hierarchy copies from
                // shared_ptr overload: the hierarchy really works on the user's arrays; the int view goes through the copying constructor
                std::unique_ptr<RtSolver> Sp(variant <= 1 ? new RtSolver(Z, prm) : variant == 2 ? new RtSolver(Zd, prm) : new RtSolver(*Zi, prm));
                RtSolver &S = *Sp;
                std::ostringstream os; os << S.precond(); o.text = os.str();
                S.precond().apply(rhs, u);
                std::tie(it, res) = S(rhs, x);
                Sp.reset(); Z.reset(); Zd.reset(); Zi.reset();      // the views must not free what they borrowed (ledger / ASan see a double delete)
                if (iptr.size() != ptr.size() || !std::equal(iptr.begin(), iptr.end(), ptr.begin()) || !std::equal(icol.begin(), icol.end(), col.begin())) o.vals.push_back(-1);
                o.vals.push_back((double)vec_digest(val) * 0 + (ptr == A.ptr && col == A.col && val == A.val ? 1 : 0));
            }
            o.vals.insert(o.vals.end(), u.begin(), u.end());
            o.vals.insert(o.vals.end(), x.begin(), x.end());
            o.vals.push_back((double)it); o.vals.push_back(res);
        } else if (kind == K_RELAX) {
            prm.put("precond.type", relax_names[p.get("relax")]);
            apply_vary_params(p, prm, "", "", "precond.", relax_names[p.get("relax")], "solver.", solver_names[p.get("solver")], true);
            RelaxSolver S(A.tie(), prm);
            std::vector<double> x(n, 0.0), u(n, 0.0);
            S.precond().apply(rhs, u);
            size_t it; double res; std::tie(it, res) = S(rhs, x);
            o.vals.insert(o.vals.end(), u.begin(), u.end());
            o.vals.insert(o.vals.end(), x.begin(), x.end());
            o.vals.push_back((double)it); o.vals.push_back(res);
        } else {
            amgcl::solver::skyline_lu<double> S(A.tie());
            std::vector<double> x(n, 0.0);
            S(rhs, x);
            o.vals.insert(o.vals.end(), x.begin(), x.end());
        }
    } catch (const std::exception &e) {
        o.exc = std::string("std::exception: ") + e.what();
    } catch (...) {
        o.exc = "non-std exception";
    }
}

static void prehistory(const Plan &p) {
    // unrelated constructions that are destroyed again, so that recycled blocks carry their data
    long k = p.get("prehistory");
    for (long i = 0; i < k; ++i) {
        gen::Csr B = gen::make_matrix(gen::F_GRAPH, 5 + 7 * i, (uint64_t)p.get("mseed") + 17 + i, 1, 1);
        std::vector<double> f = gen::make_vector(B.n, 99 + i, 0), x(B.n, 0.0);
        boost::property_tree::ptree prm;
        prm.put("precond.coarsening.type", coarsening_names[(p.get("coarsening") + i) % 4]);
        prm.put("precond.relax.type", relax_names[(p.get("relax") + 3 * i) % 9]);
        prm.put("precond.coarse_enough", 2);
        try { RtSolver S(B.tie(), prm); S(f, x); } catch (...) {}
    }
}

Plan generate(uint64_t seed, uint64_t run, bool thorough) {
    sim::rng r(seed, "world", run);
    Plan p;
    long kind = r.chance(0.7) ? K_AMG : (long)r.below(NKIND);
    p.set("kind", kind, kind);
    int fam = (int)r.below(gen::NFAMILY);
    p.set("family", fam, fam);
    long n; double u = r.unit();
    if (u < 0.15) n = 1; else if (u < 0.5) n = r.range(2, 12); else if (u < 0.9) n = r.range(8, 80); else n = r.range(40, thorough ? 800 : 300);
    if (kind == K_SKYLINE) n = std::min<long>(n, 120);
    p.set("n", n, 1);
    p.set("mseed", (long)(r.next() >> 16), 0);
    p.set("vseed", (long)(r.next() >> 16), 0);
    p.set("contrast", r.range(0, 3), 0);
    p.set("aniso", r.chance(0.3) ? (1L << r.range(1, 4)) : 1, 1);
    p.set("rhs_kind", r.range(0, 2), 0);
    p.set("coarsening", r.range(0, 3), 0);
    p.set("relax", r.range(0, 8), 0);
    p.set("solver", r.range(0, 8), 0);
    p.set("maxiter", r.chance(0.2) ? r.range(1, 5) : 100, 1);
    static const long ce[] = { 1, 2, 3, 8, 30, 3000 };
    p.set("coarse_enough", ce[r.below(6)], 1);
    p.set("max_levels", r.chance(0.2) ? r.range(1, 3) : 100, 1);
    p.set("direct_coarse", r.chance(0.8) ? 1 : 0, 0);
    p.set("npre", r.range(0, 2), 0); p.set("npost", r.range(0, 2), 0); p.set("ncycle", r.range(1, 2), 1); p.set("pre_cycles", r.range(0, 2), 0);
    p.set("block_size", r.chance(0.2) ? r.range(2, 3) : 1, 1);
    p.set("nullspace", r.chance(0.3) ? r.range(1, 3) : 0, 0);
    p.set("nt", r.chance(0.6) ? 1 : draw_nt(r, 2, 32), 1);
    p.set("nested", r.chance(0.3) ? 1 : 0, 0);
    p.set("prehistory", r.range(0, 3), 0);
    p.set("heap_seed", (long)(r.next() >> 16), 0);
    draw_vary_params(r, p, 0.5);
    // bound the simulated work of one world (each is executed five times): a non-converging 100-iteration W-cycle solve on
    // a 14-thread team is minutes of fiber switching and tests nothing a 10-iteration one does not
    if (p.get("nt") > 4 && p.get("maxiter") > 12) p.set("maxiter", 12, 1);
    if (p.get("ncycle") > 1 && p.get("maxiter") > 25) p.set("maxiter", 25, 1);
    if (p.get("ncycle") > 1 && p.get("max_levels") > 4) p.set("max_levels", 4, 1);
    p.sched.strategy = sim::CANONICAL; p.sched.seed = r.next();
    return p;
}

Result execute(const Plan &p) {
    Result res;
    gen::Csr A = gen::make_matrix((int)p.get("family"), p.get("n"), (uint64_t)p.get("mseed"), (int)p.get("contrast"), (int)p.get("aniso"));
    std::vector<double> rhs = gen::make_vector(A.n, (uint64_t)p.get("vseed"), (int)p.get("rhs_kind"));
    int nt = (int)p.get("nt");
    sim::rng hr((uint64_t)p.get("heap_seed"), "heap");
    // heaps: a clean one first, then dirty ones
    sim::HeapConfig heaps[4];
    heaps[0].fill = sim::HF_ZERO; heaps[0].recycle = 0; heaps[0].shift = 0;
    for (int k = 1; k < 4; ++k) {
        static const int fills[] = { sim::HF_FF, sim::HF_AA, sim::HF_SNAN, sim::HF_RANDOM, sim::HF_ZERO };
        heaps[k].fill = fills[hr.below(5)]; heaps[k].recycle = (int)hr.below(2); heaps[k].shift = (int)hr.below(8); heaps[k].seed = hr.next();
    }
    int nheaps = sim::heap_simulated() ? 4 : 1;
    std::vector<Out> outs(nheaps);
    Violation base; base.add("component", kind_names[p.get("kind")]);
    auto sig = [&](Violation v, const char *clause) { v.add("clause", clause); v.add("coarsening", coarsening_names[p.get("coarsening")]); v.add("relax", relax_names[p.get("relax")]); v.add("solver", solver_names[p.get("solver")]); v.add("family", gen::family_name((int)p.get("family"))); return v; };
    for (int k = 0; k < nheaps; ++k) {
        sim::heap_configure(heaps[k]);
        dirty_stack(heaps[k].fill == sim::HF_ZERO ? 0 : 0xA5 + k);
        sim::HeapStats before, after;
        // some multi-threaded worlds run everything from a thread of the caller's own parallel region (nested regions are serialised:
        // teams of one while omp_get_max_threads() still says nt) on a stack dirtied like the heap
        const bool nested = p.get("nested", 0) != 0 && nt >= 2;
        const int sfill = heaps[k].fill == sim::HF_ZERO ? 0 : 0xA5 + k;
        sim::RunStatus st = world(nt, p.sched, [&]() {
            if (!nested) { prehistory(p); before = sim::heap_stats(); run_one(p, A, rhs, outs[k]); after = sim::heap_stats(); return; }
            #pragma omp parallel
            { if (omp_get_thread_num() == omp_get_num_threads() - 1) { dirty_stack_small(sfill); prehistory(p); before = sim::heap_stats(); run_one(p, A, rhs, outs[k]); after = sim::heap_stats(); } }
        });
        if (nested && k == 0) { res.counts["nested_caller_worlds"]++; res.faults["team_smaller_than_max_threads"]++; }
        res.absorb(st);
        if (st.status) { Violation v = sig(base, "terminates"); v.oracle = "world-terminates"; v.detail = st.blocked; res.fail(v); }
        if (sim::heap_simulated()) {
            if (after.live_blocks != before.live_blocks + 0 && outs[k].exc.empty()) {
                // Out holds vectors/strings allocated inside: account for them by measuring again after moving them out
            }
            if (after.bad_free) { Violation v = sig(base, "foreign-or-double-delete"); v.oracle = "heap-ledger"; v.detail = fmt("%llu invalid deletes (heap %s)", (unsigned long long)after.bad_free, sim::heap_fill_name(heaps[k].fill)); res.fail(v); }
            res.faults[std::string("heap_fill_") + sim::heap_fill_name(heaps[k].fill)]++;
            if (heaps[k].recycle) res.faults["heap_recycle_lifo"]++;
            if (heaps[k].shift) res.faults["heap_address_shift"]++;
            res.faults["alloc_recycled_dirty"] += after.recycled_dirty;
        }
        if (outs[k].exc == "non-std exception") { Violation v = sig(base, "exception-type"); v.oracle = "exception-is-std"; v.detail = "a non-std::exception escaped"; res.fail(v); }
        res.hash = sim::hash_combine(res.hash, outs[k].digest());
    }
    // leak ledger: a separate pass in which nothing of the harness survives the scope
    if (sim::heap_simulated()) {
        sim::HeapConfig hc; hc.fill = sim::HF_AA; hc.recycle = 0; sim::heap_configure(hc);
        // measured outside the world: the simulator's own fiber records are gone by then
        sim::HeapStats before = sim::heap_stats();
        { Out tmp; world(nt, p.sched, [&]() { run_one(p, A, rhs, tmp); }); }
        sim::HeapStats after = sim::heap_stats();
        if (after.live_blocks != before.live_blocks) {
            Violation v = sig(base, "leak"); v.oracle = "heap-ledger";
            v.detail = fmt("live blocks %llu -> %llu (bytes %llu -> %llu) after construct/solve/destroy", (unsigned long long)before.live_blocks, (unsigned long long)after.live_blocks, (unsigned long long)before.live_bytes, (unsigned long long)after.live_bytes);
            res.fail(v);
        }
    }
    for (int k = 1; k < nheaps; ++k) {
        if (outs[k].exc != outs[0].exc || outs[k].text != outs[0].text || first_diff(outs[k].vals, outs[0].vals) != -1) {
            Violation v = sig(base, "heap-independence"); v.oracle = "bitwise-across-heaps";
            long d = first_diff(outs[k].vals, outs[0].vals);
            v.detail = fmt("heap fill=%s recycle=%d shift=%d vs clean heap: %s", sim::heap_fill_name(heaps[k].fill), heaps[k].recycle, heaps[k].shift,
                outs[k].exc != outs[0].exc ? ("outcome '" + outs[k].exc + "' vs '" + outs[0].exc + "'").c_str() :
                outs[k].text != outs[0].text ? "hierarchy summary differs" :
                fmt("value %ld: %.17g vs %.17g", d, d >= 0 ? outs[k].vals[d] : 0.0, d >= 0 ? outs[0].vals[d] : 0.0).c_str());
            res.fail(v);
            break;
        }
    }
    sim::HeapConfig none; sim::heap_configure(none);
    bool degenerate = A.n == 1 || p.get("family") == gen::F_DIAGONAL || p.get("family") == gen::F_DISCONNECTED || p.get("family") == gen::F_POSITIVE_OFFDIAG || p.get("family") == gen::F_GRID2D_DIRROWS || A.n <= p.get("coarse_enough") || p.get("max_levels") == 1;
    size_t levels = 0; { size_t pos = outs[0].text.find("Number of levels:"); if (pos != std::string::npos) levels = (size_t)atoi(outs[0].text.c_str() + pos + 17); }
    res.nontrivial = degenerate || levels >= 2;
    res.key = sim::hash_combine(gen::digest(A), (uint64_t)(p.get("kind") * 100000 + p.get("coarsening") * 10000 + p.get("relax") * 1000 + p.get("solver") * 100 + p.get("coarse_enough")));
    res.key = sim::hash_combine(res.key, (uint64_t)(p.get("max_levels") * 64 + p.get("npre") * 16 + p.get("npost") * 4 + p.get("ncycle")));
    // a violation of this property means that outputs depend on what the process did before: their digest is then no usable identity
    // of the run (the in-process gate and the fresh-process replay would call the world irreproducible instead of reporting it)
    if (!res.v.empty()) res.hash = res.key;
    if (degenerate) res.counts["degenerate_inputs"]++;
    if (levels >= 2) res.counts["multilevel_hierarchies"]++;
    if (!outs[0].exc.empty()) res.counts["exception_outcomes"]++;
    res.counts[std::string("kind_") + kind_names[p.get("kind")]]++;
    js::Value s = js::Value::object();
    s.set("kind", kind_names[p.get("kind")]); s.set("family", gen::family_name((int)p.get("family"))); s.set("n", A.n); s.set("nnz", (long)A.nnz());
    s.set("coarsening", coarsening_names[p.get("coarsening")]); s.set("relax", relax_names[p.get("relax")]); s.set("solver", solver_names[p.get("solver")]);
    s.set("coarse_enough", p.get("coarse_enough")); s.set("max_levels", p.get("max_levels")); s.set("levels", (long)levels); s.set("nt", nt);
    s.set("prehistory", p.get("prehistory")); s.set("nullspace_vectors", p.get("coarsening") != 0 ? p.get("nullspace") : 0); s.set("outcome", outs[0].exc.empty() ? "ok" : outs[0].exc);
    { boost::property_tree::ptree tmp; std::string d = apply_vary_params(p, tmp, "coarsening.", coarsening_names[p.get("coarsening")], "relax.", relax_names[p.get("relax")], "solver.", solver_names[p.get("solver")], true); if (!d.empty()) { s.set("varied_parameters", d); res.counts["varied_parameter_worlds"]++; } }
    js::Value hs = js::Value::array();
    for (int k = 0; k < nheaps; ++k) hs.push(fmt("%s/recycle=%d/shift=%d", sim::heap_fill_name(heaps[k].fill), heaps[k].recycle, heaps[k].shift));
    s.set("heaps", hs);
    res.sample = s;
    return res;
}
