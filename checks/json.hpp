// Minimal JSON value (ordered objects), parser and writer.  No dependencies.
#ifndef AMGSIM_JSON_HPP
#define AMGSIM_JSON_HPP
#include <string>
#include <vector>
#include <utility>
#include <cstdio>
#include <cstdlib>
#include <cstring>
#include <cmath>
#include <stdexcept>
#include <fstream>
#include <sstream>

namespace js {

struct Value {
    enum Type { NUL, BOOL, INT, DBL, STR, ARR, OBJ } t;
    bool b; long long i; double d; std::string s;
    std::vector<Value> a;
    std::vector<std::pair<std::string, Value> > o;

    Value() : t(NUL), b(false), i(0), d(0) {}
    Value(bool v) : t(BOOL), b(v), i(0), d(0) {}
    Value(int v) : t(INT), b(false), i(v), d(0) {}
    Value(long v) : t(INT), b(false), i(v), d(0) {}
    Value(long long v) : t(INT), b(false), i(v), d(0) {}
    Value(unsigned v) : t(INT), b(false), i(v), d(0) {}
    Value(unsigned long v) : t(INT), b(false), i((long long)v), d(0) {}
    Value(unsigned long long v) : t(INT), b(false), i((long long)v), d(0) {}
    Value(double v) : t(DBL), b(false), i(0), d(v) {}
    Value(const char *v) : t(STR), b(false), i(0), d(0), s(v) {}
    Value(const std::string &v) : t(STR), b(false), i(0), d(0), s(v) {}

    static Value array() { Value v; v.t = ARR; return v; }
    static Value object() { Value v; v.t = OBJ; return v; }

    Value& push(const Value &v) { if (t != ARR) { t = ARR; a.clear(); } a.push_back(v); return a.back(); }
    Value& set(const std::string &k, const Value &v) {
        if (t != OBJ) { t = OBJ; o.clear(); }
        for (size_t j = 0; j < o.size(); ++j) if (o[j].first == k) { o[j].second = v; return o[j].second; }
        o.push_back(std::make_pair(k, v)); return o.back().second;
    }
    const Value* find(const std::string &k) const {
        if (t != OBJ) return 0;
        for (size_t j = 0; j < o.size(); ++j) if (o[j].first == k) return &o[j].second;
        return 0;
    }
    bool has(const std::string &k) const { return find(k) != 0; }
    const Value& at(const std::string &k) const {
        const Value *v = find(k); if (!v) throw std::runtime_error("json: missing key " + k); return *v;
    }
    long long as_int(long long dflt = 0) const { return t == INT ? i : t == DBL ? (long long)d : t == BOOL ? b : t == STR ? atoll(s.c_str()) : dflt; }
    double as_dbl(double dflt = 0) const { return t == DBL ? d : t == INT ? (double)i : dflt; }
    std::string as_str() const {
        if (t == STR) return s;
        if (t == INT) { char buf[32]; snprintf(buf, sizeof buf, "%lld", i); return buf; }
        if (t == BOOL) return b ? "true" : "false";
        if (t == DBL) { char buf[40]; snprintf(buf, sizeof buf, "%.17g", d); return buf; }
        return "";
    }
    long long get_int(const std::string &k, long long dflt = 0) const { const Value *v = find(k); return v ? v->as_int(dflt) : dflt; }
    std::string get_str(const std::string &k, const std::string &dflt = "") const { const Value *v = find(k); return v ? v->as_str() : dflt; }

    static void esc(std::string &out, const std::string &s) {
        out += '"';
        for (size_t j = 0; j < s.size(); ++j) {
            unsigned char c = s[j];
            if (c == '"') out += "\\\""; else if (c == '\\') out += "\\\\";
            else if (c == '\n') out += "\\n"; else if (c == '\t') out += "\\t"; else if (c == '\r') out += "\\r";
            else if (c < 0x20) { char buf[8]; snprintf(buf, sizeof buf, "\\u%04x", c); out += buf; }
            else out += (char)c;
        }
        out += '"';
    }
    void dump(std::string &out) const {
        switch (t) {
            case NUL: out += "null"; break;
            case BOOL: out += b ? "true" : "false"; break;
            case INT: { char buf[32]; snprintf(buf, sizeof buf, "%lld", i); out += buf; break; }
            case DBL: {
                if (std::isfinite(d)) { char buf[40]; snprintf(buf, sizeof buf, "%.17g", d); out += buf;
                    if (!strpbrk(buf, ".eE")) out += ".0"; }
                else { out += (d != d) ? "\"nan\"" : (d > 0 ? "\"inf\"" : "\"-inf\""); }
                break; }
            case STR: esc(out, s); break;
            case ARR: out += '['; for (size_t j = 0; j < a.size(); ++j) { if (j) out += ','; a[j].dump(out); } out += ']'; break;
            case OBJ: out += '{'; for (size_t j = 0; j < o.size(); ++j) { if (j) out += ','; esc(out, o[j].first); out += ':'; o[j].second.dump(out); } out += '}'; break;
        }
    }
    std::string str() const { std::string r; dump(r); return r; }
};

struct Parser {
    const char *p, *e;
    Parser(const std::string &s) : p(s.data()), e(s.data() + s.size()) {}
    void ws() { while (p < e && (*p == ' ' || *p == '\n' || *p == '\t' || *p == '\r')) ++p; }
    [[noreturn]] void fail(const char *m) { throw std::runtime_error(std::string("json parse: ") + m); }
    Value parse() { ws(); Value v = val(); ws(); return v; }
    Value val() {
        ws(); if (p >= e) fail("eof");
        if (*p == '{') { ++p; Value v = Value::object(); ws(); if (p < e && *p == '}') { ++p; return v; }
            for (;;) { ws(); if (p >= e || *p != '"') fail("key"); std::string k = strv(); ws(); if (p >= e || *p != ':') fail("colon"); ++p;
                Value x = val(); v.o.push_back(std::make_pair(k, x)); ws(); if (p < e && *p == ',') { ++p; continue; } if (p < e && *p == '}') { ++p; break; } fail("obj"); }
            return v; }
        if (*p == '[') { ++p; Value v = Value::array(); ws(); if (p < e && *p == ']') { ++p; return v; }
            for (;;) { v.a.push_back(val()); ws(); if (p < e && *p == ',') { ++p; continue; } if (p < e && *p == ']') { ++p; break; } fail("arr"); }
            return v; }
        if (*p == '"') return Value(strv());
        if (!strncmp(p, "true", 4) && e - p >= 4) { p += 4; return Value(true); }
        if (!strncmp(p, "false", 5) && e - p >= 5) { p += 5; return Value(false); }
        if (!strncmp(p, "null", 4) && e - p >= 4) { p += 4; return Value(); }
        const char *q = p; bool isd = false;
        while (q < e && (isdigit((unsigned char)*q) || *q == '-' || *q == '+' || *q == '.' || *q == 'e' || *q == 'E')) { if (*q == '.' || *q == 'e' || *q == 'E') isd = true; ++q; }
        if (q == p) fail("value");
        std::string num(p, q); p = q;
        if (isd) return Value(strtod(num.c_str(), 0));
        return Value((long long)strtoll(num.c_str(), 0, 10));
    }
    std::string strv() {
        ++p; std::string r;
        while (p < e && *p != '"') {
            if (*p == '\\' && p + 1 < e) { ++p;
                switch (*p) { case 'n': r += '\n'; break; case 't': r += '\t'; break; case 'r': r += '\r'; break;
                    case 'u': { if (e - p < 5) fail("u"); unsigned c = strtoul(std::string(p + 1, p + 5).c_str(), 0, 16); r += (char)c; p += 4; break; }
                    default: r += *p; }
                ++p; }
            else r += *p++;
        }
        if (p >= e) fail("string"); ++p; return r;
    }
};

inline Value parse(const std::string &s) { return Parser(s).parse(); }
inline Value load(const std::string &path) {
    std::ifstream f(path.c_str()); if (!f) throw std::runtime_error("cannot open " + path);
    std::stringstream ss; ss << f.rdbuf(); return parse(ss.str());
}
inline void save(const std::string &path, const Value &v) {
    std::ofstream f(path.c_str()); std::string s = v.str(); f << s << "\n";
}

} // namespace js
#endif
