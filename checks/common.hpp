// Helpers shared by the checks: amgcl <-> generator conversions, digests, recording coarsening policy,
// world runner, comparison helpers.
#ifndef AMGSIM_COMMON_HPP
#define AMGSIM_COMMON_HPP

#ifndef EIGEN_DONT_PARALLELIZE
#define EIGEN_DONT_PARALLELIZE
#endif

#include <memory>
#include <vector>
#include <string>
#include <sstream>
#include <cmath>
#include <limits>
#include <functional>
#include <cstdarg>

#include <amgcl/backend/builtin.hpp>
#include <amgcl/adapter/crs_tuple.hpp>
#include <amgcl/util.hpp>

#include "harness.hpp"
#include "../gen/matrices.hpp"

namespace cm {

typedef amgcl::backend::builtin<double> DBackend;
typedef amgcl::backend::crs<double, ptrdiff_t, ptrdiff_t> DMatrix;

inline std::shared_ptr<DMatrix> to_crs(const gen::Csr &A) {
    auto M = std::make_shared<DMatrix>();
    M->set_size(A.n, A.m, false);
    for (long i = 0; i <= A.n; ++i) M->ptr[i] = A.ptr[i];
    M->set_nonzeros(A.nnz());
    for (size_t j = 0; j < A.nnz(); ++j) { M->col[j] = A.col[j]; M->val[j] = A.val[j]; }
    return M;
}

template <class C, class P>
inline gen::Csr from_crs(const amgcl::backend::crs<double, C, P> &M) {
    gen::Csr A; A.n = M.nrows; A.m = M.ncols;
    A.ptr.assign(M.ptr, M.ptr + M.nrows + 1);
    A.col.assign(M.col, M.col + M.ptr[M.nrows]);
    A.val.assign(M.val, M.val + M.ptr[M.nrows]);
    return A;
}

// digest of the raw arrays (structure + value bits) of any crs
template <class V, class C, class P>
inline uint64_t crs_digest(const amgcl::backend::crs<V, C, P> &M) {
    uint64_t h = sim::hash_combine(M.nrows, M.ncols);
    if (!M.ptr) return h;
    size_t nnz = M.ptr[M.nrows];
    h = sim::hash_bytes(M.ptr, (M.nrows + 1) * sizeof(P), h);
    h = sim::hash_bytes(M.col, nnz * sizeof(C), h);
    if (M.val) h = sim::hash_bytes(M.val, nnz * sizeof(V), h);
    return h;
}

// structural well-formedness of a CRS matrix; returns "" or a description
template <class V, class C, class P>
inline std::string crs_wellformed(const amgcl::backend::crs<V, C, P> &M, bool need_sorted_unique = false) {
    std::ostringstream s;
    if (!M.ptr) { if (M.nrows) return "null ptr"; return ""; }
    if (M.ptr[0] != 0) { s << "ptr[0]=" << M.ptr[0]; return s.str(); }
    for (size_t i = 0; i < M.nrows; ++i) if (M.ptr[i+1] < M.ptr[i]) { s << "ptr not monotone at row " << i; return s.str(); }
    if ((size_t)M.ptr[M.nrows] != M.nnz) { s << "nnz=" << M.nnz << " ptr[n]=" << M.ptr[M.nrows]; return s.str(); }
    for (size_t i = 0; i < M.nrows; ++i) for (P j = M.ptr[i]; j < M.ptr[i+1]; ++j) {
        if (M.col[j] < 0 || (size_t)M.col[j] >= M.ncols) { s << "col out of range at row " << i << ": " << M.col[j]; return s.str(); }
        if (need_sorted_unique && j > M.ptr[i] && M.col[j] <= M.col[j-1]) { s << "row " << i << " not sorted/unique at col " << M.col[j]; return s.str(); }
    }
    return "";
}

inline uint64_t vec_digest(const double *p, size_t n, uint64_t h = 0x51ed27) { return sim::hash_bytes(p, n * sizeof(double), h); }
template <class Vec> inline uint64_t vec_digest(const Vec &v, uint64_t h = 0x51ed27) { return v.size() ? sim::hash_bytes(v.data(), v.size() * sizeof(v[0]), h) : h; }

inline bool bits_equal(double a, double b) { return std::memcmp(&a, &b, sizeof a) == 0; }
inline bool bits_equal(const std::vector<double> &a, const std::vector<double> &b) {
    return a.size() == b.size() && (a.empty() || std::memcmp(a.data(), b.data(), a.size() * sizeof(double)) == 0);
}
inline long first_diff(const std::vector<double> &a, const std::vector<double> &b) {
    if (a.size() != b.size()) return -2;
    for (size_t i = 0; i < a.size(); ++i) if (!bits_equal(a[i], b[i])) return (long)i;
    return -1;
}
inline double max_abs(const std::vector<double> &a) { double m = 0; for (size_t i = 0; i < a.size(); ++i) m = std::max(m, std::fabs(a[i])); return m; }
inline double max_abs_diff(const std::vector<double> &a, const std::vector<double> &b) {
    if (a.size() != b.size()) return std::numeric_limits<double>::infinity();
    double m = 0;
    for (size_t i = 0; i < a.size(); ++i) {
        double d = std::fabs(a[i] - b[i]);
        if (d != d) { if (!(a[i] != a[i] && b[i] != b[i])) return std::numeric_limits<double>::infinity(); continue; }
        m = std::max(m, d);
    }
    return m;
}

inline std::string fmt(const char *f, ...) __attribute__((format(printf, 1, 2)));
inline std::string fmt(const char *f, ...) {
    char buf[1024]; va_list ap; va_start(ap, f); vsnprintf(buf, sizeof buf, f, ap); va_end(ap); return buf;
}

// run fn as a simulated world with nt threads under the given schedule
inline sim::RunStatus world(int nt, const sim::SchedConfig &cfg, const std::function<void()> &fn) {
    sim::set_num_threads(nt);
    return sim::run_world(cfg, [&]() { sim::set_num_threads(nt); fn(); });
}
inline sim::SchedConfig canonical() { sim::SchedConfig c; c.strategy = sim::CANONICAL; return c; }

// draw a schedule configuration (swarm style)
inline void draw_schedule(sim::rng &r, sim::SchedConfig &s, int nt) {
    static const int strategies[] = { sim::CANONICAL, sim::REVERSE, sim::RANDOM, sim::RANDOM, sim::PCT, sim::PCT, sim::STARVE };
    s.strategy = strategies[r.below(sizeof strategies / sizeof strategies[0])];
    s.seed = r.next();
    s.pct_depth = (int)r.range(1, 3);
    static const long lens[] = { 8, 32, 128, 1024, 8192 };
    s.pct_len = (uint64_t)lens[r.below(5)];
    s.starve = (int)r.below(nt > 0 ? nt : 1);
}

// biased thread count 1..32
inline int draw_nt(sim::rng &r, int lo = 1, int hi = 32) {
    static const int fav[] = { 1, 2, 3, 4, 5, 7, 8, 16, 17, 24, 32 };
    for (int tries = 0; tries < 8; ++tries) {
        int nt = r.chance(0.7) ? fav[r.below(sizeof fav / sizeof fav[0])] : (int)r.range(1, 32);
        if (nt >= lo && nt <= hi) return nt;
    }
    return lo;
}

// ---- recording coarsening policy (template-template seam of amgcl::amg) ------------------
struct LevelLog {
    std::shared_ptr<void> A, P, R, Ac;       // type-erased shared_ptr<build_matrix>
    bool from_rebuild = false;
};
inline std::vector<LevelLog>& level_log() { static std::vector<LevelLog> l; return l; }

template <template <class> class Base>
struct recorder {
    template <class Backend>
    struct type : Base<Backend> {
        typedef typename Base<Backend>::params params;
        type(const params &p = params()) : Base<Backend>(p) {}

        template <class Matrix>
        std::tuple< std::shared_ptr<Matrix>, std::shared_ptr<Matrix> >
        transfer_operators(const Matrix &A) {
            auto PR = Base<Backend>::transfer_operators(A);
            LevelLog l;
            l.A = std::make_shared<Matrix>(A);
            l.P = std::get<0>(PR); l.R = std::get<1>(PR);
            level_log().push_back(l);
            return PR;
        }

        template <class Matrix>
        std::shared_ptr<Matrix> coarse_operator(const Matrix &A, const Matrix &P, const Matrix &R) const {
            auto Ac = Base<Backend>::coarse_operator(A, P, R);
            std::vector<LevelLog> &log = level_log();
            if (!log.empty() && log.back().P.get() == (const void*)&P && !log.back().Ac) {
                log.back().Ac = Ac;
            } else {
                LevelLog l; l.from_rebuild = true;
                l.A = std::make_shared<Matrix>(A);
                l.P = std::make_shared<Matrix>(P); l.R = std::make_shared<Matrix>(R);
                l.Ac = Ac;
                log.push_back(l);
            }
            return Ac;
        }
    };
};

} // namespace cm
#endif
