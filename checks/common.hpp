// Helpers shared by the checks: amgcl <-> generator conversions, digests, recording coarsening policy,
// world runner, comparison helpers.
#ifndef AMGSIM_COMMON_HPP
#define AMGSIM_COMMON_HPP

#ifndef EIGEN_DONT_PARALLELIZE
#define EIGEN_DONT_PARALLELIZE
#endif

#include <memory>
#include <vector>
#include <string>
#include <sstream>
#include <cmath>
#include <limits>
#include <functional>
#include <cstdarg>

#include <amgcl/backend/builtin.hpp>
#include <amgcl/adapter/crs_tuple.hpp>
#include <amgcl/util.hpp>

#include "harness.hpp"
#include "../gen/matrices.hpp"

namespace cm {

typedef amgcl::backend::builtin<double> DBackend;
typedef amgcl::backend::crs<double, ptrdiff_t, ptrdiff_t> DMatrix;

inline std::shared_ptr<DMatrix> to_crs(const gen::Csr &A) {
    auto M = std::make_shared<DMatrix>();
    M->set_size(A.n, A.m, false);
    for (long i = 0; i <= A.n; ++i) M->ptr[i] = A.ptr[i];
    M->set_nonzeros(A.nnz());
    for (size_t j = 0; j < A.nnz(); ++j) { M->col[j] = A.col[j]; M->val[j] = A.val[j]; }
    return M;
}

template <class C, class P>
inline gen::Csr from_crs(const amgcl::backend::crs<double, C, P> &M) {
    gen::Csr A; A.n = M.nrows; A.m = M.ncols;
    A.ptr.assign(M.ptr, M.ptr + M.nrows + 1);
    A.col.assign(M.col, M.col + M.ptr[M.nrows]);
    A.val.assign(M.val, M.val + M.ptr[M.nrows]);
    return A;
}

// digest of the raw arrays (structure + value bits) of any crs
template <class V, class C, class P>
inline uint64_t crs_digest(const amgcl::backend::crs<V, C, P> &M) {
    uint64_t h = sim::hash_combine(M.nrows, M.ncols);
    if (!M.ptr) return h;
    size_t nnz = M.ptr[M.nrows];
    h = sim::hash_bytes(M.ptr, (M.nrows + 1) * sizeof(P), h);
    h = sim::hash_bytes(M.col, nnz * sizeof(C), h);
    if (M.val) h = sim::hash_bytes(M.val, nnz * sizeof(V), h);
    return h;
}

// structural well-formedness of a CRS matrix; returns "" or a description
template <class V, class C, class P>
inline std::string crs_wellformed(const amgcl::backend::crs<V, C, P> &M, bool need_sorted_unique = false) {
    std::ostringstream s;
    if (!M.ptr) { if (M.nrows) return "null ptr"; return ""; }
    if (M.ptr[0] != 0) { s << "ptr[0]=" << M.ptr[0]; return s.str(); }
    for (size_t i = 0; i < M.nrows; ++i) if (M.ptr[i+1] < M.ptr[i]) { s << "ptr not monotone at row " << i; return s.str(); }
    if ((size_t)M.ptr[M.nrows] != M.nnz) { s << "nnz=" << M.nnz << " ptr[n]=" << M.ptr[M.nrows]; return s.str(); }
    for (size_t i = 0; i < M.nrows; ++i) for (P j = M.ptr[i]; j < M.ptr[i+1]; ++j) {
        if (M.col[j] < 0 || (size_t)M.col[j] >= M.ncols) { s << "col out of range at row " << i << ": " << M.col[j]; return s.str(); }
        if (need_sorted_unique && j > M.ptr[i] && M.col[j] <= M.col[j-1]) { s << "row " << i << " not sorted/unique at col " << M.col[j]; return s.str(); }
    }
    return "";
}

inline uint64_t vec_digest(const double *p, size_t n, uint64_t h = 0x51ed27) { return sim::hash_bytes(p, n * sizeof(double), h); }
template <class Vec> inline uint64_t vec_digest(const Vec &v, uint64_t h = 0x51ed27) { return v.size() ? sim::hash_bytes(v.data(), v.size() * sizeof(v[0]), h) : h; }

inline bool bits_equal(double a, double b) { return std::memcmp(&a, &b, sizeof a) == 0; }
inline bool bits_equal(const std::vector<double> &a, const std::vector<double> &b) {
    return a.size() == b.size() && (a.empty() || std::memcmp(a.data(), b.data(), a.size() * sizeof(double)) == 0);
}
inline long first_diff(const std::vector<double> &a, const std::vector<double> &b) {
    if (a.size() != b.size()) return -2;
    for (size_t i = 0; i < a.size(); ++i) if (!bits_equal(a[i], b[i])) return (long)i;
    return -1;
}
inline double max_abs(const std::vector<double> &a) { double m = 0; for (size_t i = 0; i < a.size(); ++i) m = std::max(m, std::fabs(a[i])); return m; }
inline double max_abs_diff(const std::vector<double> &a, const std::vector<double> &b) {
    if (a.size() != b.size()) return std::numeric_limits<double>::infinity();
    double m = 0;
    for (size_t i = 0; i < a.size(); ++i) {
        double d = std::fabs(a[i] - b[i]);
        if (d != d) { if (!(a[i] != a[i] && b[i] != b[i])) return std::numeric_limits<double>::infinity(); continue; }
        m = std::max(m, d);
    }
    return m;
}

inline std::string fmt(const char *f, ...) __attribute__((format(printf, 1, 2)));
inline std::string fmt(const char *f, ...) {
    char buf[1024]; va_list ap; va_start(ap, f); vsnprintf(buf, sizeof buf, f, ap); va_end(ap); return buf;
}

// run fn as a simulated world with nt threads under the given schedule
inline sim::RunStatus world(int nt, const sim::SchedConfig &cfg, const std::function<void()> &fn) {
    sim::set_num_threads(nt);
    return sim::run_world(cfg, [&]() { sim::set_num_threads(nt); fn(); });
}
inline sim::SchedConfig canonical() { sim::SchedConfig c; c.strategy = sim::CANONICAL; return c; }

// draw a schedule configuration (swarm style)
inline void draw_schedule(sim::rng &r, sim::SchedConfig &s, int nt) {
    static const int strategies[] = { sim::CANONICAL, sim::REVERSE, sim::RANDOM, sim::RANDOM, sim::PCT, sim::PCT, sim::STARVE };
    s.strategy = strategies[r.below(sizeof strategies / sizeof strategies[0])];
    s.seed = r.next();
    s.pct_depth = (int)r.range(1, 3);
    static const long lens[] = { 8, 32, 128, 1024, 8192 };
    s.pct_len = (uint64_t)lens[r.below(5)];
    s.starve = (int)r.below(nt > 0 ? nt : 1);
}

// biased thread count 1..32
inline int draw_nt(sim::rng &r, int lo = 1, int hi = 32) {
    static const int fav[] = { 1, 2, 3, 4, 5, 7, 8, 16, 17, 24, 32 };
    for (int tries = 0; tries < 8; ++tries) {
        int nt = r.chance(0.7) ? fav[r.below(sizeof fav / sizeof fav[0])] : (int)r.range(1, 32);
        if (nt >= lo && nt <= hi) return nt;
    }
    return lo;
}

// ---- seeded variation of the component parameters (swarm style: correctness must not depend on one configuration) ----------
// The plan carries a switch "vp" and a seed "vp_seed"; the values are derived from the seed and the component names, only keys the
// chosen component understands are set.  allow_random_vector: power iterations start from a thread-seeded random vector and
// accumulate in an unordered critical section - callers with bitwise oracles across constructions at nt > 1 pass false.
inline void draw_vary_params(sim::rng &r, hz::Plan &p, double prob = 0.5) { p.set("vp", r.chance(prob) ? 1 : 0, 0); p.set("vp_seed", (long)(r.next() >> 20), 0); }
template <class PTree>
inline std::string apply_vary_params(const hz::Plan &p, PTree &prm, const std::string &cpre, const std::string &coarsening, const std::string &rpre, const std::string &relax,
                                     const std::string &spre, const std::string &solver, bool allow_random_vector) {
    if (!p.get("vp", 0)) return "";
    sim::rng r((uint64_t)p.get("vp_seed", 0), "vary");
    std::string desc;
    auto put = [&](const std::string &key, double v) { prm.put(key, v); char b[96]; snprintf(b, sizeof b, "%s=%g ", key.c_str(), v); desc += b; };
    auto puti = [&](const std::string &key, long v) { prm.put(key, v); char b[96]; snprintf(b, sizeof b, "%s=%ld ", key.c_str(), v); desc += b; };
    auto putb = [&](const std::string &key, bool v) { prm.put(key, v); char b[96]; snprintf(b, sizeof b, "%s=%d ", key.c_str(), (int)v); desc += b; };
    auto pick = [&](std::initializer_list<double> l) { size_t k = (size_t)r.below(l.size()); return *(l.begin() + k); };
    if (!relax.empty()) {
        if (relax == "ilut") { if (r.chance(0.7)) put(rpre + "p", pick({1, 1.25, 1.5, 2, 2.5, 3.75})); if (r.chance(0.5)) put(rpre + "tau", pick({0, 1e-3, 1e-2, 0.1})); }
        if (relax == "iluk") { if (r.chance(0.7)) puti(rpre + "k", (long)r.range(0, 3)); }
        if (relax == "ilup") { if (r.chance(0.7)) puti(rpre + "k", (long)r.range(0, 2)); }
        if ((relax == "ilu0" || relax == "iluk" || relax == "ilup" || relax == "ilut" || relax == "damped_jacobi") && r.chance(0.4)) put(rpre + "damping", pick({1, 0.72, 0.5, 0.9}));
        if ((relax == "ilu0" || relax == "iluk" || relax == "ilup" || relax == "ilut") && r.chance(0.3)) putb(rpre + "solve.serial", r.chance(0.5));
        if (relax == "gauss_seidel" && r.chance(0.3)) putb(rpre + "serial", r.chance(0.5));
        if (relax == "chebyshev") { if (r.chance(0.6)) puti(rpre + "degree", (long)r.range(1, 6)); if (r.chance(0.4)) put(rpre + "lower", pick({1.0 / 30, 0.1, 0.25})); if (r.chance(0.3)) put(rpre + "higher", pick({1, 1.1}));
            if (r.chance(0.4)) putb(rpre + "scale", r.chance(0.5)); if (allow_random_vector && r.chance(0.3)) puti(rpre + "power_iters", (long)r.range(1, 6)); }
    }
    if (!coarsening.empty()) {
        if (coarsening == "ruge_stuben") { if (r.chance(0.5)) put(cpre + "eps_strong", pick({0.1, 0.25, 0.5})); if (r.chance(0.4)) putb(cpre + "do_trunc", r.chance(0.5)); if (r.chance(0.3)) put(cpre + "eps_trunc", pick({0.1, 0.2, 0.25, 0.5})); }
        else { if (r.chance(0.5)) put(cpre + "aggr.eps_strong", pick({0, 0.04, 0.08, 0.2, 0.5})); }
        if (coarsening == "aggregation" && r.chance(0.5)) put(cpre + "over_interp", pick({1, 1.5, 2}));
        if (coarsening == "smoothed_aggregation") { if (r.chance(0.4)) put(cpre + "relax", pick({0.5, 1, 1.5})); if (allow_random_vector && r.chance(0.25)) { putb(cpre + "estimate_spectral_radius", true); puti(cpre + "power_iters", (long)r.range(0, 5)); } }
    }
    if (!solver.empty()) {
        if (solver == "bicgstabl") { if (r.chance(0.6)) puti(spre + "L", (long)r.range(1, 4)); if (r.chance(0.3)) put(spre + "delta", pick({0, 1e-2, 0.5})); if (r.chance(0.3)) putb(spre + "convex", r.chance(0.5)); }
        if ((solver == "gmres" || solver == "fgmres" || solver == "lgmres") && r.chance(0.6)) puti(spre + "M", (long)r.range(2, 12));
        if (solver == "lgmres" && r.chance(0.5)) puti(spre + "K", (long)r.range(1, 4));
        if (solver == "idrs") { if (r.chance(0.6)) puti(spre + "s", (long)r.range(1, 6)); if (r.chance(0.3)) put(spre + "omega", pick({0, 0.7, 0.9})); if (r.chance(0.3)) putb(spre + "smoothing", r.chance(0.5)); if (r.chance(0.3)) putb(spre + "replacement", r.chance(0.5)); }
        if (solver == "richardson" && r.chance(0.4)) put(spre + "damping", pick({1, 0.8, 0.5}));
        if (solver != "preonly" && r.chance(0.2)) putb(spre + "ns_search", r.chance(0.5));
        if (solver != "preonly" && r.chance(0.15)) put(spre + "abstol", pick({1e-12, 1e-6, 1e-2}));      // the stopping test is max(tol*|f|, abstol)
    }
    return desc;
}

// ---- recording coarsening policy (template-template seam of amgcl::amg) ------------------
struct LevelLog {
    std::shared_ptr<void> A, P, R, Ac;       // type-erased shared_ptr<build_matrix>
    bool from_rebuild = false;
};
inline std::vector<LevelLog>& level_log() { static std::vector<LevelLog> l; return l; }

template <template <class> class Base>
struct recorder {
    template <class Backend>
    struct type : Base<Backend> {
        typedef typename Base<Backend>::params params;
        type(const params &p = params()) : Base<Backend>(p) {}

        template <class Matrix>
        std::tuple< std::shared_ptr<Matrix>, std::shared_ptr<Matrix> >
        transfer_operators(const Matrix &A) {
            auto PR = Base<Backend>::transfer_operators(A);
            LevelLog l;
            l.A = std::make_shared<Matrix>(A);
            l.P = std::get<0>(PR); l.R = std::get<1>(PR);
            level_log().push_back(l);
            return PR;
        }

        template <class Matrix>
        std::shared_ptr<Matrix> coarse_operator(const Matrix &A, const Matrix &P, const Matrix &R) const {
            auto Ac = Base<Backend>::coarse_operator(A, P, R);
            std::vector<LevelLog> &log = level_log();
            if (!log.empty() && log.back().P.get() == (const void*)&P && !log.back().Ac) {
                log.back().Ac = Ac;
            } else {
                LevelLog l; l.from_rebuild = true;
                l.A = std::make_shared<Matrix>(A);
                l.P = std::make_shared<Matrix>(P); l.R = std::make_shared<Matrix>(R);
                l.Ac = Ac;
                log.push_back(l);
            }
            return Ac;
        }
    };
};

} // namespace cm
#endif
