// C02 — the AMG cycle is a fixed linear, symmetric positive, contracting operator.
// Decided clause (history): the preconditioner acts as ONE fixed operator independent of earlier applications.  B is
// extracted column by column in a shuffled order, interleaved with applications to foreign vectors (random, huge,
// NaN-containing, zero); every column is extracted a second time at the end and must come back bit for bit.  On the
// extracted model (Eigen): linearity, symmetry, positivity, rho(I - B A) < 1, exact power-of-two scaling.
#include "common.hpp"
#include <Eigen/Dense>
#include <Eigen/Eigenvalues>
#include <amgcl/amg.hpp>
#include <amgcl/coarsening/runtime.hpp>
#include <amgcl/relaxation/runtime.hpp>
#include <amgcl/value_type/static_matrix.hpp>
#include <amgcl/adapter/block_matrix.hpp>
#include <amgcl/coarsening/smoothed_aggregation.hpp>
#include <amgcl/relaxation/spai0.hpp>
#include <amgcl/relaxation/damped_jacobi.hpp>
#include "harness_main.hpp"

const char *CHECK_ID = "C02";
using namespace cm;
using hz::Plan; using hz::Result; using hz::Violation;

typedef amgcl::amg<DBackend, amgcl::runtime::coarsening::wrapper, amgcl::runtime::relaxation::wrapper> AMG;
static const char *coarsening_names[] = { "ruge_stuben", "aggregation", "smoothed_aggregation", "smoothed_aggr_emin" };
static const char *relax_names[] = { "gauss_seidel", "ilu0", "iluk", "ilup", "ilut", "damped_jacobi", "spai0", "spai1", "chebyshev" };
static bool symmetric_smoother(long r) { return r == 0 || r == 1 || r == 2 || r == 3 || r == 5 || r == 6 || r == 8; }


// 2x2 block values: a scalar SPD matrix seen through the block adapter (off-diagonal blocks are not individually symmetric),
// smoothed aggregation with a symmetric point smoother; the same oracles on the extracted 2n x 2n operator
template <template <class> class Relax>
static bool block_extract(const gen::Csr &A, const Plan &p, Eigen::MatrixXd &B, Eigen::MatrixXd &B2, size_t &nlevels, Result &res) {
    typedef amgcl::static_matrix<double,2,2> BV; typedef amgcl::static_matrix<double,2,1> RV; typedef amgcl::backend::builtin<BV> BB;
    typedef amgcl::amg<BB, amgcl::coarsening::smoothed_aggregation, Relax> BAMG;
    const long n = A.n, nb = n / 2;
    typename BAMG::params prm; prm.coarse_enough = (unsigned)std::max<long>(1, p.get("coarse_enough") / 2); prm.npre = prm.npost = (unsigned)p.get("npre"); prm.ncycle = (unsigned)p.get("ncycle"); prm.pre_cycles = (unsigned)p.get("pre_cycles");
    if (prm.ncycle > 1) prm.max_levels = 4;
    gen::Csr Ac = A; auto As = to_crs(Ac); amgcl::backend::sort_rows(*As);
    BAMG amg(amgcl::adapter::block_matrix<BV>(*As), prm);
    { std::ostringstream os; os << amg; std::string t = os.str(); size_t pos = t.find("Number of levels:"); if (pos != std::string::npos) nlevels = (size_t)atoi(t.c_str() + pos + 17); }
    sim::rng r((uint64_t)p.get("vseed"), "c02b");
    std::vector<long> order(n); for (long i = 0; i < n; ++i) order[i] = i; for (long i = n - 1; i > 0; --i) std::swap(order[i], order[r.below(i + 1)]);
    std::vector<RV> e(nb), x(nb);
    auto unit = [&](long j) { for (long i = 0; i < nb; ++i) e[i] = amgcl::math::zero<RV>(); e[j / 2](j % 2) = 1; };
    for (long q = 0; q < n; ++q) { long j = order[q]; unit(j); amg.apply(e, x); for (long i = 0; i < n; ++i) B(i, j) = x[i / 2](i % 2);
        if (r.chance(0.3)) { for (long i = 0; i < nb; ++i) { e[i](0) = (i % 3) ? 1e200 : std::numeric_limits<double>::quiet_NaN(); e[i](1) = r.unit(); } amg.apply(e, x); res.faults["foreign_nan_apply"]++; } }
    for (long q = n - 1; q >= 0; --q) { long j = order[q]; unit(j); amg.apply(e, x); for (long i = 0; i < n; ++i) B2(i, j) = x[i / 2](i % 2); }
    res.counts["block_valued_hierarchies"]++;
    return true;
}

Plan generate(uint64_t seed, uint64_t run, bool thorough) {
    sim::rng r(seed, "world", run);
    Plan p;
    static const int fams[] = { gen::F_GRID2D, gen::F_GRID2D, gen::F_GRAPH, gen::F_GRID1D, gen::F_GRID3D };
    int fam = fams[r.below(5)]; p.set("family", fam, fam);
    p.set("n", r.chance(0.6) ? r.range(8, 70) : r.range(50, thorough ? 300 : 160), 3);
    p.set("mseed", (long)(r.next() >> 16), 0); p.set("vseed", (long)(r.next() >> 16), 0);
    p.set("contrast", r.range(0, 2), 0); p.set("aniso", r.chance(0.3) ? (1L << r.range(1, 3)) : 1, 1);
    p.set("coarsening", r.range(0, 3), 0);
    p.set("relax", r.range(0, 8), 0);
    p.set("over_interp_one", r.range(0, 1), 0);
    p.set("ncycle", r.range(1, 2), 1); p.set("npre", r.range(1, 3), 1); p.set("pre_cycles", r.range(1, 2), 1);
    static const long ce[] = { 1, 2, 4, 8, 20, 3000 };
    p.set("coarse_enough", ce[r.below(6)], 1);
    p.set("max_levels", r.chance(0.2) ? r.range(1, 3) : 100, 1);
    p.set("direct_coarse", r.chance(0.8) ? 1 : 0, 0);
    p.set("scale_pow", r.range(-3, 4), 0);
    p.set("power_iters", 0, 0);
    p.set("block", r.chance(0.15) ? 1 : 0, 0);
    static const long nts[] = { 1, 1, 2, 4, 5, 8, 17 };
    p.set("nt", nts[r.below(7)], 1);
    if (p.get("nt") >= 8 && p.get("n") > 100) p.set("n", 100, 3);      // bound the simulated work of one world (fiber switches of a large team)
    draw_schedule(r, p.sched, (int)p.get("nt"));
    draw_vary_params(r, p, 0.4);
    return p;
}

static boost::property_tree::ptree params(const Plan &p) {
    boost::property_tree::ptree prm;
    prm.put("coarsening.type", coarsening_names[p.get("coarsening")]);
    prm.put("relax.type", relax_names[p.get("relax")]);
    if (p.get("coarsening") == 1 && p.get("over_interp_one")) prm.put("coarsening.over_interp", 1.0f);
    prm.put("coarse_enough", p.get("coarse_enough"));
    long ml = p.get("max_levels"); if (p.get("ncycle") > 1 && ml > 4) ml = 4;      // a W-cycle costs 2^levels per application, and B needs 2n of them
    prm.put("max_levels", ml);
    prm.put("direct_coarse", p.get("direct_coarse") != 0);
    prm.put("ncycle", p.get("ncycle")); prm.put("npre", p.get("npre")); prm.put("npost", p.get("npre")); prm.put("pre_cycles", p.get("pre_cycles"));
    // seeded variation of the smoother parameters (dampings <= 1, fill levels, Chebyshev degree / interval, serial or level-scheduled
    // solves); no power iterations (thread-seeded), coarsening parameters stay as drawn above (they are part of the finding signatures)
    apply_vary_params(p, prm, "", "", "relax.", relax_names[p.get("relax")], "", "", false);
    return prm;
}

Result execute(const Plan &p) {
    Result res;
    gen::Csr A = gen::make_matrix((int)p.get("family"), p.get("n"), (uint64_t)p.get("mseed"), (int)p.get("contrast"), (int)p.get("aniso"));
    bool block = p.get("block") != 0 && A.n % 2 == 0 && A.n >= 4;
    const long n = A.n; int nt = (int)p.get("nt");
    long coarsening = block ? 2 : p.get("coarsening"), relax = block ? (p.get("relax") == 5 ? 5 : 6) : p.get("relax");
    long smallest_level = n;
    auto sig = [&](const char *oracle, const char *clause, const std::string &detail) {
        Violation v; v.oracle = oracle; v.add("component", "amg"); v.add("clause", clause); v.add("coarsening", coarsening_names[coarsening]); v.add("relax", relax_names[relax]); v.add("values", block ? "block2x2" : "scalar");
        v.add("smallest_level", smallest_level <= 2 ? "tiny" : "ok"); v.add("over_interp", coarsening == 1 ? (p.get("over_interp_one") ? "1" : "default") : "n/a"); v.add("ncycle", p.get("ncycle")); v.detail = detail; return v; };
    Eigen::MatrixXd B(n, n), B2(n, n); size_t nlevels = 0; bool ok = false; std::string exc;
    std::vector<double> lin_err(2, 0.0); bool scaled_equal = true; long scaled_bad = -1; double pre_cycles_err = 0; bool pre_cycles_checked = false;
    sim::RunStatus st = world(nt, p.sched, [&]() {
        try {
            if (block) { if (relax == 5) ok = block_extract<amgcl::relaxation::damped_jacobi>(A, p, B, B2, nlevels, res); else ok = block_extract<amgcl::relaxation::spai0>(A, p, B, B2, nlevels, res); return; }
            gen::Csr Ac = A;
            AMG amg(Ac.tie(), params(p));
            { std::ostringstream os; os << amg; std::string t = os.str(); size_t pos = t.find("Number of levels:"); if (pos != std::string::npos) nlevels = (size_t)atoi(t.c_str() + pos + 17);
              // smallest level size from the printed table ("level unknowns nonzeros ...")
              size_t tp = t.find("-----"); if (tp != std::string::npos) { std::istringstream is(t.substr(t.find('\n', tp) + 1)); std::string line; while (std::getline(is, line)) { long lv, un; if (sscanf(line.c_str(), "%ld %ld", &lv, &un) == 2) smallest_level = std::min(smallest_level, un); } } }
            sim::rng r((uint64_t)p.get("vseed"), "c02");
            std::vector<long> order(n); for (long i = 0; i < n; ++i) order[i] = i; for (long i = n - 1; i > 0; --i) std::swap(order[i], order[r.below(i + 1)]);
            std::vector<double> e(n), x(n), junk(n);
            auto foreign = [&]() {
                int k = (int)r.below(5);
                for (long i = 0; i < n; ++i) junk[i] = k == 0 ? r.unit() - 0.5 : k == 1 ? (r.unit() - 0.5) * 1e200 : k == 2 ? 0.0 : k == 3 ? (i % 3 ? 1.0 : std::numeric_limits<double>::quiet_NaN()) : std::numeric_limits<double>::infinity();
                amg.apply(junk, x);
                res.faults[k == 0 ? "foreign_random_apply" : k == 1 ? "foreign_huge_apply" : k == 2 ? "foreign_zero_apply" : k == 3 ? "foreign_nan_apply" : "foreign_inf_apply"]++;
            };
            for (long q = 0; q < n; ++q) {
                long j = order[q]; std::fill(e.begin(), e.end(), 0.0); e[j] = 1; amg.apply(e, x); for (long i = 0; i < n; ++i) B(i, j) = x[i];
                if (r.chance(0.3)) foreign();
            }
            foreign();
            for (long q = n - 1; q >= 0; --q) { long j = order[q]; std::fill(e.begin(), e.end(), 0.0); e[j] = 1; amg.apply(e, x); for (long i = 0; i < n; ++i) B2(i, j) = x[i]; }
            // linearity on random pairs
            for (int t = 0; t < 2; ++t) {
                std::vector<double> f(n), g(n), h(n), xf(n), xg(n), xh(n); double al = (double)r.range(-4, 4) / 2, be = (double)r.range(-4, 4) / 4;
                for (long i = 0; i < n; ++i) { f[i] = r.unit() - 0.5; g[i] = r.unit() - 0.5; h[i] = al * f[i] + be * g[i]; }
                amg.apply(f, xf); amg.apply(g, xg); amg.apply(h, xh);
                double sc = 1e-300; for (long i = 0; i < n; ++i) sc = std::max(sc, std::fabs(al * xf[i]) + std::fabs(be * xg[i]));
                for (long i = 0; i < n; ++i) lin_err[t] = std::max(lin_err[t], std::fabs(xh[i] - (al * xf[i] + be * xg[i])) / sc);
            }
            // apply() = pre_cycles cycles from x = 0: with two of them B2 = 2 B1 - B1 A B1, B1 being the operator of one cycle
            if (p.get("pre_cycles") == 2 && n <= 80) {
                boost::property_tree::ptree p1 = params(p); p1.put("pre_cycles", 1);
                AMG amg1(Ac.tie(), p1); Eigen::MatrixXd B1(n, n), D = Eigen::MatrixXd::Zero(n, n);
                for (long j = 0; j < n; ++j) { std::fill(e.begin(), e.end(), 0.0); e[j] = 1; amg1.apply(e, x); for (long i = 0; i < n; ++i) B1(i, j) = x[i]; }
                for (long i = 0; i < n; ++i) for (ptrdiff_t j = A.ptr[i]; j < A.ptr[i+1]; ++j) D(i, A.col[j]) += A.val[j];
                if (B1.allFinite() && B.allFinite()) { Eigen::MatrixXd W = 2 * B1 - B1 * D * B1; double dv = (W - B).cwiseAbs().maxCoeff(), sc = std::max(B.cwiseAbs().maxCoeff(), (B1 * D * B1).cwiseAbs().maxCoeff());
                    // (emin's critical accumulation makes two constructions differ in rounding at nt > 1)
                    if (!(dv <= 1e-9 * sc) && (coarsening != 3 || nt == 1)) pre_cycles_err = dv / sc; pre_cycles_checked = true; }
            }
            // B(2^k A) = 2^-k B(A), exactly
            // (emin accumulates in an unordered critical section: two constructions only agree bitwise on one thread)
            if (relax != 4 && (coarsening != 3 || nt == 1)) {
                int k = (int)p.get("scale_pow"); gen::Csr As = A; for (size_t j = 0; j < As.val.size(); ++j) As.val[j] = std::ldexp(As.val[j], k);
                AMG amgs(As.tie(), params(p));
                for (long q = 0; q < std::min<long>(n, 6); ++q) { long j = order[q]; std::fill(e.begin(), e.end(), 0.0); e[j] = 1; amgs.apply(e, x); for (long i = 0; i < n; ++i) if (!bits_equal(x[i], std::ldexp(B(i, j), -k))) { scaled_equal = false; scaled_bad = j; } }
            }
            ok = true;
        } catch (const std::exception &e) { exc = e.what(); }
    });
    res.absorb(st); res.deviations = st.deviations;
    if (st.status) res.fail(sig("world-terminates", "deadlock-or-budget", st.blocked));
    if (!ok) { res.counts["construction_or_apply_threw"]++; res.nontrivial = false; res.key = sim::hash_combine(gen::digest(A), 1); js::Value s = js::Value::object(); s.set("outcome", exc); res.sample = s; return res; }
    res.hash = sim::hash_combine(res.hash, sim::hash_bytes(B.data(), sizeof(double) * n * n));
    bool finite = B.allFinite();
    // 1. one fixed operator, independent of earlier applications
    if (std::memcmp(B.data(), B2.data(), sizeof(double) * n * n) != 0) {
        long bj = -1; for (long j = 0; j < n && bj < 0; ++j) for (long i = 0; i < n; ++i) if (!bits_equal(B(i, j), B2(i, j))) { bj = j; break; }
        res.fail(sig("history-independent", "fixed-operator", fmt("column %ld extracted twice (before / after foreign applications incl. NaN, Inf, 1e200) differs", bj)));
    }
    if (finite) {
        double bn = B.cwiseAbs().maxCoeff();
        // 2. linear
        for (int t = 0; t < 2; ++t) if (!(lin_err[t] <= 1e-10)) res.fail(sig("linear", "B(af+bg)=aBf+bBg", fmt("relative deviation %.3g", lin_err[t])));
        if (pre_cycles_checked) { res.counts["pre_cycles_identity_checked"]++; if (pre_cycles_err > 0) res.fail(sig("pre-cycles", "B2=2B1-B1*A*B1", fmt("apply() with pre_cycles=2 differs from two cycles of the one-cycle operator by %.3g (relative)", pre_cycles_err))); }
        if (!scaled_equal) res.fail(sig("power-of-two-scaling", "B(2^k A)=2^-k B(A)", fmt("column %ld is not scaled exactly by 2^%ld", scaled_bad, -p.get("scale_pow"))));
        bool spd_case = symmetric_smoother(relax);
        if (spd_case && n <= 200) {
            // 3. symmetric, 4. positive definite, 5. contracting
            double asym = (B - B.transpose()).cwiseAbs().maxCoeff();
            if (!(asym <= 1e-9 * bn)) res.fail(sig("symmetric", "B=B^T", fmt("max |B - B^T| = %.3g, max |B| = %.3g", asym, bn)));
            else {
                Eigen::MatrixXd Bs = 0.5 * (B + B.transpose());
                Eigen::SelfAdjointEigenSolver<Eigen::MatrixXd> es(Bs, Eigen::EigenvaluesOnly);
                double lmin = es.eigenvalues().minCoeff(), lmax = es.eigenvalues().maxCoeff();
                if (!(lmin > 1e-12 * lmax)) res.fail(sig("positive-definite", "lambda_min(B)>0", fmt("lambda_min = %.3g, lambda_max = %.3g", lmin, lmax)));
                else {
                    Eigen::MatrixXd D = Eigen::MatrixXd::Zero(n, n); for (long i = 0; i < n; ++i) for (ptrdiff_t j = A.ptr[i]; j < A.ptr[i+1]; ++j) D(i, A.col[j]) += A.val[j];
                    // eigenvalues of B A = eigenvalues of the symmetric L^T A L with B = L L^T
                    Eigen::LLT<Eigen::MatrixXd> llt(Bs);
                    Eigen::MatrixXd L = llt.matrixL(); Eigen::MatrixXd S = L.transpose() * D * L; S = 0.5 * (S + S.transpose().eval());
                    Eigen::SelfAdjointEigenSolver<Eigen::MatrixXd> e2(S, Eigen::EigenvaluesOnly);
                    double rho = std::max(std::fabs(1 - e2.eigenvalues().minCoeff()), std::fabs(1 - e2.eigenvalues().maxCoeff()));
                    res.counts["contraction_checked"]++;
                    if (!(rho < 1 - 1e-10)) res.fail(sig("contraction", "rho(I-BA)<1", fmt("rho(I - B A) = %.6f (eigenvalues of BA in [%.4f, %.4f], %zu levels)", rho, e2.eigenvalues().minCoeff(), e2.eigenvalues().maxCoeff(), nlevels)));
                }
            }
        }
    } else res.counts["nonfinite_operator"]++;
    res.nontrivial = nlevels >= 2 && n >= 8;
    if (nlevels >= 2) res.counts["multilevel"]++;
    res.key = sim::hash_combine(gen::digest(A), (uint64_t)(coarsening * 100003 + relax * 1009 + p.get("ncycle") * 101 + p.get("npre") * 11 + p.get("pre_cycles"))); res.key = sim::hash_combine(res.key, (uint64_t)(p.get("coarse_enough") * 7 + p.get("max_levels") + 1000 * nt)); res.key = sim::hash_combine(res.key, (uint64_t)p.get("vseed"));
    js::Value s = js::Value::object();
    s.set("family", gen::family_name((int)p.get("family"))); s.set("n", n); s.set("coarsening", coarsening_names[coarsening]); s.set("relax", relax_names[relax]); s.set("levels", (long)nlevels); s.set("values", block ? "2x2 blocks through the block adapter" : "scalar");
    s.set("ncycle", p.get("ncycle")); s.set("npre_npost", p.get("npre")); s.set("pre_cycles", p.get("pre_cycles")); s.set("coarse_enough", p.get("coarse_enough")); s.set("nt", nt); s.set("strategy", sim::strategy_name(p.sched.strategy));
    res.sample = s;
    return res;
}
